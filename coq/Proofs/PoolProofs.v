(* C10 proofs: accounting, exclusivity, no reuse after close, conservation at quiescence, for every
   reachable state of the pool LTS (every interleaving of the atomic steps, every fault choice). *)
From Coq Require Import String.
From Coq Require Import List Strings.Byte NArith Bool Arith Lia.
Require Import Bytes Show Pool.
Import ListNotations.

(* ---------- counting over finite-support maps ---------- *)
Definition optb {A} (f : A -> bool) (o : option A) : nat :=
  match o with Some v => if f v then 1 else 0 | None => 0 end.
Fixpoint cnt {A} (f : A -> bool) (m : nat -> option A) (n : nat) : nat :=
  match n with 0 => 0 | S k => cnt f m k + optb f (m k) end.

Lemma upd_same {A} (m : nat -> option A) k v : upd m k v k = v.
Proof. unfold upd. rewrite Nat.eqb_refl. reflexivity. Qed.
Lemma upd_other {A} (m : nat -> option A) k v i : i <> k -> upd m k v i = m i.
Proof. unfold upd. intros H. destruct (Nat.eqb_spec i k); [contradiction|reflexivity]. Qed.

Lemma cnt_upd_ge {A} (f : A -> bool) m k v : forall n, n <= k -> cnt f (upd m k v) n = cnt f m n.
Proof.
  induction n as [|n IH]; intros H; cbn [cnt]; [reflexivity|].
  rewrite IH by lia. rewrite upd_other by lia. reflexivity.
Qed.

Lemma cnt_upd {A} (f : A -> bool) m k v : forall n, k < n ->
  cnt f (upd m k v) n + optb f (m k) = cnt f m n + optb f v.
Proof.
  induction n as [|n IH]; intros H; [lia|]. cbn [cnt].
  destruct (Nat.eq_dec k n) as [->|Hne].
  - rewrite cnt_upd_ge by lia. rewrite upd_same. lia.
  - rewrite upd_other by lia. specialize (IH ltac:(lia)). lia.
Qed.

Lemma cnt_none {A} (f : A -> bool) m : forall n, (forall i, i < n -> m i = None) -> cnt f m n = 0.
Proof.
  induction n as [|n IH]; intros H; cbn [cnt]; [reflexivity|].
  rewrite IH by (intros; apply H; lia). rewrite (H n) by lia. reflexivity.
Qed.

Lemma cnt_le_any {A} (f : A -> bool) m : forall n, cnt f m n <= cnt (fun _ => true) m n.
Proof.
  induction n as [|n IH]; cbn [cnt]; [lia|].
  destruct (m n) as [v|]; cbn [optb]; [destruct (f v)|]; lia.
Qed.

Lemma cnt_ge_one {A} (f : A -> bool) m : forall n t v, t < n -> m t = Some v -> f v = true -> 1 <= cnt f m n.
Proof.
  induction n as [|n IH]; intros t v Ht Hm Hf; [lia|]. cbn [cnt].
  destruct (Nat.eq_dec t n) as [->|Hne].
  - rewrite Hm. cbn [optb]. rewrite Hf. lia.
  - specialize (IH t v ltac:(lia) Hm Hf). lia.
Qed.

Lemma cnt_unique {A} (f : A -> bool) m : forall n t1 t2 v1 v2, cnt f m n <= 1 ->
  t1 < n -> t2 < n -> m t1 = Some v1 -> m t2 = Some v2 -> f v1 = true -> f v2 = true -> t1 = t2.
Proof.
  induction n as [|n IH]; intros t1 t2 v1 v2 Hc H1 H2 M1 M2 F1 F2; [lia|]. cbn [cnt] in Hc.
  destruct (Nat.eq_dec t1 n) as [E1|N1]; destruct (Nat.eq_dec t2 n) as [E2|N2]; subst; auto.
  - rewrite M1 in Hc. cbn [optb] in Hc. rewrite F1 in Hc.
    pose proof (cnt_ge_one f m n t2 v2 ltac:(lia) M2 F2). lia.
  - rewrite M2 in Hc. cbn [optb] in Hc. rewrite F2 in Hc.
    pose proof (cnt_ge_one f m n t1 v1 ltac:(lia) M1 F1). lia.
  - apply (IH t1 t2 v1 v2); auto; lia.
Qed.

Lemma cnt_zero_none {A} (m : nat -> option A) : forall n, cnt (fun _ => true) m n = 0 -> forall i, i < n -> m i = None.
Proof.
  induction n as [|n IH]; intros H i Hi; [lia|]. cbn [cnt] in H.
  destruct (Nat.eq_dec i n) as [->|Hne].
  - destruct (m n); [cbn [optb] in H; lia|reflexivity].
  - apply IH; lia.
Qed.

(* ---------- the classifying predicates ---------- *)
Definition is_dial (p : pc) : bool := match p with PDialing => true | _ => false end.
Definition is_hold (p : pc) : bool := match p with PHolding _ _ => true | _ => false end.
Definition holds (c : nat) (p : pc) : bool := match p with PHolding c' _ => Nat.eqb c' c | _ => false end.
Definition waits (w : nat) (p : pc) : bool := match p with PWaiting w' => Nat.eqb w' w | _ => false end.
Definition is_got (v : wst) : bool := match v with WGot _ => true | _ => false end.
Definition gotc (c : nat) (v : wst) : bool := match v with WGot c' => Nat.eqb c' c | _ => false end.
Definition anyb {A} (_ : A) : bool := true.

Definition occ (l : list nat) (c : nat) : nat := count_occ Nat.eq_dec l c.
Arguments occ : simpl never.

(* in how many places connection c is: idle stack, a caller's hands, a delivered wantConn, closed *)
Definition own (s : st) (c : nat) : nat :=
  occ (idle s) c + cnt (holds c) (pcs s) (nt s) + cnt (gotc c) (ws s) (nw s) + occ (closed s) c.

(* the invariant, generalised to states in the middle of a step: e slots and the connections tr
   are in transit (taken out of one place, not yet put into the next) *)
Record InvT (g : cfg) (s : st) (e : nat) (tr : list nat) : Prop := {
  i_supp_t : forall t, nt s <= t -> pcs s t = None;
  i_supp_w : forall w, nw s <= w -> ws s w = None;
  i_acc : count s = cnt is_dial (pcs s) (nt s) + length (dfor s) + cnt is_hold (pcs s) (nt s)
                    + length (idle s) + cnt is_got (ws s) (nw s) + e;
  i_bound : count s <= maxc g;
  i_own : forall c, own s c + occ tr c <= 1;
  i_fresh : forall c, nc s <= c -> own s c + occ tr c = 0;
  i_pend : pending s = cnt anyb (pcs s) (nt s);
  i_link : forall w, cnt (waits w) (pcs s) (nt s) = optb anyb (ws s w);
  i_queue : wq s <> [] -> waiton g = true /\ idle s = [] /\ count s = maxc g;
  i_pre : forall t, pcs s t = Some PPreQueue -> waiton g = true
}.

Definition Inv (g : cfg) (s : st) : Prop := InvT g s 0 [].

Lemma inv_init g : Inv g init.
Proof. constructor; cbn; auto; try lia; try discriminate. intros H; contradiction. Qed.

Lemma pop_live_some m q w r : pop_live m q = (Some w, r) -> m w = Some WWait /\ q <> [].
Proof.
  induction q as [|x q IH]; cbn [pop_live]; [discriminate|]. intros H.
  destruct (m x) as [[| |]|] eqn:E; try (destruct (IH H) as [A _]; split; [exact A|discriminate]).
  inversion H; subst. split; [exact E|discriminate].
Qed.
Lemma pop_live_none m q r : pop_live m q = (None, r) -> r = [].
Proof.
  induction q as [|x q IH]; cbn [pop_live]; [intros H; inversion H; reflexivity|]. intros H.
  destruct (m x) as [[| |]|]; auto. discriminate.
Qed.

Lemma occ_cons x l c : occ (x :: l) c = (if Nat.eq_dec x c then 1 else 0) + occ l c.
Proof. unfold occ. cbn [count_occ]. destruct (Nat.eq_dec x c); lia. Qed.
Lemma occ_nil c : occ [] c = 0. Proof. reflexivity. Qed.
Lemma occ_app l1 l2 c : occ (l1 ++ l2) c = occ l1 c + occ l2 c.
Proof. unfold occ. apply count_occ_app. Qed.

Lemma lt_supp {A} (m : nat -> option A) n k v : (forall i, n <= i -> m i = None) -> m k = Some v -> k < n.
Proof. intros H E. destruct (le_lt_dec n k) as [L|L]; [rewrite (H k L) in E; discriminate|exact L]. Qed.

(* a wantConn that is still waiting receives connection c *)
Lemma deliver_inv g s w c e :
  ws s w = Some WWait -> InvT g s (S e) [c] -> InvT g (set_w w (Some (WGot c)) s) e [].
Proof.
  intros Hw I. pose proof (lt_supp _ _ _ _ (i_supp_w _ _ _ _ I) Hw) as Lw.
  constructor; cbn.
  - apply (i_supp_t _ _ _ _ I).
  - intros w' H. rewrite upd_other by lia. apply (i_supp_w _ _ _ _ I); exact H.
  - pose proof (cnt_upd is_got (ws s) w (Some (WGot c)) (nw s) Lw) as U. rewrite Hw in U. cbn in U.
    pose proof (i_acc _ _ _ _ I). lia.
  - apply (i_bound _ _ _ _ I).
  - intros c'. pose proof (i_own _ _ _ _ I c') as O. unfold own in *. cbn.
    pose proof (cnt_upd (gotc c') (ws s) w (Some (WGot c)) (nw s) Lw) as U. rewrite Hw in U. cbn in U.
    rewrite ?occ_cons, ?occ_nil in O. rewrite ?occ_nil.
    destruct (Nat.eq_dec c c') as [->|N]; [rewrite Nat.eqb_refl in U|apply Nat.eqb_neq in N; rewrite N in U]; lia.
  - intros c' H. pose proof (i_fresh _ _ _ _ I c' H) as O. unfold own in *. cbn in *.
    pose proof (cnt_upd (gotc c') (ws s) w (Some (WGot c)) (nw s) Lw) as U. rewrite Hw in U. cbn in U.
    rewrite ?occ_cons, ?occ_nil in O. rewrite ?occ_nil.
    destruct (Nat.eq_dec c c') as [->|N]; [lia|apply Nat.eqb_neq in N; rewrite N in U; lia].
  - apply (i_pend _ _ _ _ I).
  - intros w'. rewrite (i_link _ _ _ _ I w'). unfold upd.
    destruct (Nat.eqb_spec w' w) as [->|N]; [rewrite Hw; reflexivity|reflexivity].
  - apply (i_queue _ _ _ _ I).
  - apply (i_pre _ _ _ _ I).
Qed.

Lemma push_idle_inv g s c e :
  wq s = [] -> InvT g s (S e) [c] -> InvT g (set_idle (c :: idle s) s) e [].
Proof.
  intros Hq I. constructor; cbn.
  - apply (i_supp_t _ _ _ _ I).
  - apply (i_supp_w _ _ _ _ I).
  - pose proof (i_acc _ _ _ _ I). lia.
  - apply (i_bound _ _ _ _ I).
  - intros c'. pose proof (i_own _ _ _ _ I c') as O. unfold own in *. cbn.
    rewrite ?occ_cons, ?occ_nil in *. lia.
  - intros c' H. pose proof (i_fresh _ _ _ _ I c' H) as O. unfold own in *. cbn.
    rewrite ?occ_cons, ?occ_nil in *. lia.
  - apply (i_pend _ _ _ _ I).
  - apply (i_link _ _ _ _ I).
  - intros H. contradiction.
  - apply (i_pre _ _ _ _ I).
Qed.

Lemma set_wq_inv g s r e tr :
  (r <> [] -> wq s <> []) -> InvT g s e tr -> InvT g (set_wq r s) e tr.
Proof.
  intros Hr I. constructor; cbn; try apply I.
  intros H. apply (i_queue _ _ _ _ I). auto.
Qed.

Lemma release_inv g s c e : InvT g s (S e) [c] -> InvT g (release g c s) e [].
Proof.
  intros I. unfold release. destruct (waiton g) eqn:W.
  - destruct (pop_live (ws s) (wq s)) as [[w|] r] eqn:P.
    + destruct (pop_live_some _ _ _ _ P) as [Hw Hq].
      apply deliver_inv; [exact Hw|]. apply set_wq_inv; auto.
    + apply pop_live_none in P. subst r.
      apply (push_idle_inv g (set_wq [] s)); [reflexivity|]. apply set_wq_inv; auto.
  - apply push_idle_inv; [|exact I].
    destruct (wq s) eqn:Q; [reflexivity|].
    destruct (i_queue _ _ _ _ I) as [W' _]; [rewrite Q; discriminate|congruence].
Qed.

Lemma dec_inv g s e : InvT g s (S e) [] -> InvT g (dec g s) e [].
Proof.
  intros I.
  assert (D : forall s0, InvT g s0 (S e) [] -> wq s0 = [] -> InvT g (set_count (count s0 - 1) s0) e []).
  { intros s0 I0 Q. constructor; cbn; try apply I0.
    - pose proof (i_acc _ _ _ _ I0). lia.
    - pose proof (i_bound _ _ _ _ I0). lia.
    - intros H; contradiction. }
  unfold dec. destruct (waiton g) eqn:W.
  - destruct (pop_live (ws s) (wq s)) as [[w|] r] eqn:P.
    + destruct (pop_live_some _ _ _ _ P) as [Hw Hq].
      assert (I1 : InvT g (set_wq r s) (S e) []) by (apply set_wq_inv; auto).
      constructor; cbn; try apply I1.
      pose proof (i_acc _ _ _ _ I1) as A. cbn in A. rewrite app_length. cbn. lia.
    + apply pop_live_none in P. subst r.
      apply (D (set_wq [] s)); [apply set_wq_inv; auto|reflexivity].
  - apply D; [exact I|].
    destruct (wq s) eqn:Q; [reflexivity|].
    destruct (i_queue _ _ _ _ I) as [W' _]; [rewrite Q; discriminate|congruence].
Qed.

Lemma close_inv g s c e : InvT g s (S e) [c] -> InvT g (close_conn g c s) e [].
Proof.
  intros I. unfold close_conn.
  assert (I0 : InvT g (set_closed (c :: closed s) s) (S e) []).
  { constructor; cbn; try apply I.
    - intros c'. pose proof (i_own _ _ _ _ I c') as O. unfold own in *. cbn. rewrite ?occ_cons, ?occ_nil in *. lia.
    - intros c' H. pose proof (i_fresh _ _ _ _ I c' H) as O. unfold own in *. cbn. rewrite ?occ_cons, ?occ_nil in *. lia. }
  (* dec and set_closed commute *)
  assert (E : set_closed (c :: closed (dec g s)) (dec g s) = dec g (set_closed (c :: closed s) s)).
  { unfold dec. destruct (waiton g); cbn; [|reflexivity].
    destruct (pop_live (ws s) (wq s)) as [[w|] r]; reflexivity. }
  rewrite E. apply dec_inv. exact I0.
Qed.

(* ---------- changing one caller's program counter ---------- *)
Lemma pcs_change g s t p0 (p1 : option pc) e tr e' tr' pend' :
  pcs s t = Some p0 -> InvT g s e tr ->
  optb is_dial (Some p0) + optb is_hold (Some p0) + e = optb is_dial p1 + optb is_hold p1 + e' ->
  (forall c, optb (holds c) (Some p0) + occ tr c = optb (holds c) p1 + occ tr' c) ->
  (forall w, optb (waits w) (Some p0) = optb (waits w) p1) ->
  pend' + 1 = pending s + optb anyb p1 ->
  (p1 = Some PPreQueue -> waiton g = true) ->
  InvT g (set_pending pend' (set_pc t p1 s)) e' tr'.
Proof.
  intros Hp I Hacc Hown Hwait Hpend Hpre.
  pose proof (lt_supp _ _ _ _ (i_supp_t _ _ _ _ I) Hp) as Lt.
  assert (U : forall f, cnt f (upd (pcs s) t p1) (nt s) + optb f (Some p0) = cnt f (pcs s) (nt s) + optb f p1).
  { intros f. rewrite <- Hp. apply cnt_upd. exact Lt. }
  constructor; cbn [set_pending set_pc set_pcs count idle wq ws nw pcs nt dfor closed nc pending].
  - intros t' H. rewrite upd_other by lia. apply (i_supp_t _ _ _ _ I). exact H.
  - apply (i_supp_w _ _ _ _ I).
  - pose proof (i_acc _ _ _ _ I). pose proof (U is_dial). pose proof (U is_hold). lia.
  - apply (i_bound _ _ _ _ I).
  - intros c. pose proof (i_own _ _ _ _ I c) as O. unfold own in *.
    cbn [set_pending set_pc set_pcs count idle wq ws nw pcs nt dfor closed nc pending].
    pose proof (U (holds c)). pose proof (Hown c). lia.
  - intros c H. pose proof (i_fresh _ _ _ _ I c H) as O. unfold own in *.
    cbn [set_pending set_pc set_pcs count idle wq ws nw pcs nt dfor closed nc pending].
    pose proof (U (holds c)). pose proof (Hown c). lia.
  - pose proof (i_pend _ _ _ _ I). pose proof (U (@anyb pc)). cbn [optb anyb] in *. lia.
  - intros w. pose proof (i_link _ _ _ _ I w). pose proof (U (waits w)). pose proof (Hwait w). lia.
  - apply (i_queue _ _ _ _ I).
  - intros t' H. destruct (Nat.eq_dec t' t) as [->|N].
    + rewrite upd_same in H. auto.
    + rewrite upd_other in H by exact N. apply (i_pre _ _ _ _ I t'). exact H.
Qed.

(* same, when the caller was blocked on wantConn w: the wantConn dies with the wait *)
Lemma unwait_change g s t w v (p1 : option pc) e tr e' tr' pend' :
  pcs s t = Some (PWaiting w) -> ws s w = Some v -> InvT g s e tr ->
  optb is_got (Some v) + e = optb is_dial p1 + optb is_hold p1 + e' ->
  (forall c, optb (gotc c) (Some v) + occ tr c = optb (holds c) p1 + occ tr' c) ->
  (forall w', optb (waits w') p1 = 0) ->
  pend' + 1 = pending s + optb anyb p1 ->
  (p1 = Some PPreQueue -> waiton g = true) ->
  InvT g (set_pending pend' (set_pc t p1 (set_w w None s))) e' tr'.
Proof.
  intros Hp Hw I Hacc Hown Hwait Hpend Hpre.
  pose proof (lt_supp _ _ _ _ (i_supp_t _ _ _ _ I) Hp) as Lt.
  pose proof (lt_supp _ _ _ _ (i_supp_w _ _ _ _ I) Hw) as Lw.
  assert (U : forall f, cnt f (upd (pcs s) t p1) (nt s) + optb f (Some (PWaiting w)) = cnt f (pcs s) (nt s) + optb f p1).
  { intros f. rewrite <- Hp. apply cnt_upd. exact Lt. }
  assert (V : forall f, cnt f (upd (ws s) w None) (nw s) + optb f (Some v) = cnt f (ws s) (nw s)).
  { intros f. rewrite <- Hw. pose proof (cnt_upd f (ws s) w None (nw s) Lw) as K. cbn [optb] in K. lia. }
  constructor; cbn [set_pending set_pc set_pcs set_w set_ws count idle wq ws nw pcs nt dfor closed nc pending].
  - intros t' H. rewrite upd_other by lia. apply (i_supp_t _ _ _ _ I). exact H.
  - intros w' H. rewrite upd_other by lia. apply (i_supp_w _ _ _ _ I). exact H.
  - pose proof (i_acc _ _ _ _ I). pose proof (U is_dial). pose proof (U is_hold). pose proof (V is_got).
    cbn [optb is_dial is_hold] in *. lia.
  - apply (i_bound _ _ _ _ I).
  - intros c. pose proof (i_own _ _ _ _ I c) as O. unfold own in *.
    cbn [set_pending set_pc set_pcs set_w set_ws count idle wq ws nw pcs nt dfor closed nc pending].
    pose proof (U (holds c)). pose proof (V (gotc c)). pose proof (Hown c). cbn [optb holds] in *. lia.
  - intros c H. pose proof (i_fresh _ _ _ _ I c H) as O. unfold own in *.
    cbn [set_pending set_pc set_pcs set_w set_ws count idle wq ws nw pcs nt dfor closed nc pending].
    pose proof (U (holds c)). pose proof (V (gotc c)). pose proof (Hown c). cbn [optb holds] in *. lia.
  - pose proof (i_pend _ _ _ _ I). pose proof (U (@anyb pc)). cbn [optb anyb] in *. lia.
  - intros w'. pose proof (i_link _ _ _ _ I w') as L. pose proof (U (waits w')) as U1. pose proof (Hwait w') as W1.
    cbn [optb waits] in U1. unfold upd at 2.
    destruct (Nat.eqb_spec w' w) as [->|N].
    + rewrite Hw in L. cbn [optb anyb] in *. rewrite Nat.eqb_refl in U1. lia.
    + assert (E : Nat.eqb w w' = false) by (apply Nat.eqb_neq; auto). rewrite E in U1. lia.
  - apply (i_queue _ _ _ _ I).
  - intros t' H. destruct (Nat.eq_dec t' t) as [->|N].
    + rewrite upd_same in H. auto.
    + rewrite upd_other in H by exact N. apply (i_pre _ _ _ _ I t'). exact H.
Qed.

Lemma pop_idle_inv g s c r e tr :
  idle s = c :: r -> InvT g s e tr -> InvT g (set_idle r s) (S e) (c :: tr).
Proof.
  intros Hi I. constructor; cbn [set_idle count idle wq ws nw pcs nt dfor closed nc pending]; try apply I.
  - pose proof (i_acc _ _ _ _ I) as A. rewrite Hi in A. cbn [length] in A. lia.
  - intros c'. pose proof (i_own _ _ _ _ I c') as O. unfold own in *.
    cbn [set_idle count idle wq ws nw pcs nt dfor closed nc pending]. rewrite Hi in O. rewrite occ_cons in *. lia.
  - intros c' H. pose proof (i_fresh _ _ _ _ I c' H) as O. unfold own in *.
    cbn [set_idle count idle wq ws nw pcs nt dfor closed nc pending]. rewrite Hi in O. rewrite occ_cons in *. lia.
  - intros H. destruct (i_queue _ _ _ _ I H) as (_ & K & _). rewrite Hi in K. discriminate.
Qed.

Lemma take_slot_inv g s e tr :
  count s < maxc g -> InvT g s e tr -> InvT g (set_count (S (count s)) s) (S e) tr.
Proof.
  intros Hc I. constructor; cbn [set_count count idle wq ws nw pcs nt dfor closed nc pending]; try apply I.
  - pose proof (i_acc _ _ _ _ I). lia.
  - lia.
  - intros H. destruct (i_queue _ _ _ _ I H) as (_ & _ & K). lia.
Qed.

Lemma fresh_conn_inv g s e tr :
  InvT g s e tr -> InvT g (set_nc (S (nc s)) s) e (nc s :: tr).
Proof.
  intros I. constructor; cbn [set_nc count idle wq ws nw pcs nt dfor closed nc pending]; try apply I.
  - intros c. pose proof (i_own _ _ _ _ I c) as O. unfold own in *.
    cbn [set_nc count idle wq ws nw pcs nt dfor closed nc pending]. rewrite occ_cons.
    destruct (Nat.eq_dec (nc s) c) as [<-|N]; [|lia].
    pose proof (i_fresh _ _ _ _ I (nc s) (le_n _)) as F. unfold own in F. lia.
  - intros c H. pose proof (i_fresh _ _ _ _ I c ltac:(lia)) as F. unfold own in *.
    cbn [set_nc count idle wq ws nw pcs nt dfor closed nc pending]. rewrite occ_cons.
    destruct (Nat.eq_dec (nc s) c) as [<-|N]; lia.
Qed.

Lemma add_dfor_inv g s w e tr :
  InvT g s (S e) tr -> InvT g (set_dfor (dfor s ++ [w]) s) e tr.
Proof.
  intros I. constructor; cbn [set_dfor count idle wq ws nw pcs nt dfor closed nc pending]; try apply I.
  pose proof (i_acc _ _ _ _ I). rewrite app_length. cbn [length]. lia.
Qed.

Lemma remove_first_length x l r : remove_first x l = Some r -> length l = S (length r).
Proof.
  revert r. induction l as [|y l IH]; intros r H; cbn [remove_first] in H; [discriminate|].
  destruct (Nat.eqb x y); [inversion H; reflexivity|].
  destruct (remove_first x l) as [r'|]; [|discriminate]. inversion H; subst. cbn [length]. rewrite (IH r' eq_refl). reflexivity.
Qed.

Lemma del_dfor_inv g s r w e tr :
  remove_first w (dfor s) = Some r -> InvT g s e tr -> InvT g (set_dfor r s) (S e) tr.
Proof.
  intros H I. constructor; cbn [set_dfor count idle wq ws nw pcs nt dfor closed nc pending]; try apply I.
  pose proof (i_acc _ _ _ _ I). apply remove_first_length in H. lia.
Qed.

Lemma cnt_upd_new {A} (f : A -> bool) m k v : cnt f (upd m k v) (S k) = cnt f m k + optb f v.
Proof. cbn [cnt]. rewrite cnt_upd_ge by lia. rewrite upd_same. reflexivity. Qed.

Lemma enter_inv g s : Inv g s ->
  Inv g (set_pending (S (pending s)) (set_nt (S (nt s)) (set_pc (nt s) (Some PEntered) s))).
Proof.
  intros I. unfold Inv in *.
  assert (N : pcs s (nt s) = None) by (apply (i_supp_t _ _ _ _ I); lia).
  constructor; cbn [set_pending set_nt set_pc set_pcs count idle wq ws nw pcs nt dfor closed nc pending].
  - intros t H. rewrite upd_other by lia. apply (i_supp_t _ _ _ _ I). lia.
  - apply (i_supp_w _ _ _ _ I).
  - rewrite !cnt_upd_new. pose proof (i_acc _ _ _ _ I). cbn [optb is_dial is_hold]. lia.
  - apply (i_bound _ _ _ _ I).
  - intros c. pose proof (i_own _ _ _ _ I c) as O. unfold own in *.
    cbn [set_pending set_nt set_pc set_pcs count idle wq ws nw pcs nt dfor closed nc pending].
    rewrite cnt_upd_new. cbn [optb holds]. lia.
  - intros c H. pose proof (i_fresh _ _ _ _ I c H) as O. unfold own in *.
    cbn [set_pending set_nt set_pc set_pcs count idle wq ws nw pcs nt dfor closed nc pending].
    rewrite cnt_upd_new. cbn [optb holds]. lia.
  - rewrite cnt_upd_new. pose proof (i_pend _ _ _ _ I). cbn [optb anyb]. lia.
  - intros w. rewrite cnt_upd_new. cbn [optb waits]. rewrite <- (i_link _ _ _ _ I w). lia.
  - apply (i_queue _ _ _ _ I).
  - intros t H. destruct (Nat.eq_dec t (nt s)) as [->|Ne].
    + rewrite upd_same in H. discriminate.
    + rewrite upd_other in H by exact Ne. apply (i_pre _ _ _ _ I t H).
Qed.

Lemma new_wait_inv g s t v e tr e' tr' :
  pcs s t = Some PPreQueue -> InvT g s e tr ->
  optb is_got (Some v) + e' = e ->
  (forall c, optb (gotc c) (Some v) + occ tr' c = occ tr c) ->
  InvT g (set_w (nw s) (Some v) (set_nw (S (nw s)) (set_pc t (Some (PWaiting (nw s))) s))) e' tr'.
Proof.
  intros Hp I Hacc Hown.
  pose proof (lt_supp _ _ _ _ (i_supp_t _ _ _ _ I) Hp) as Lt.
  assert (N : ws s (nw s) = None) by (apply (i_supp_w _ _ _ _ I); lia).
  assert (U : forall f, cnt f (upd (pcs s) t (Some (PWaiting (nw s)))) (nt s) + optb f (Some PPreQueue)
                        = cnt f (pcs s) (nt s) + optb f (Some (PWaiting (nw s)))).
  { intros f. rewrite <- Hp. apply cnt_upd. exact Lt. }
  constructor; cbn [set_w set_ws set_nw set_pc set_pcs count idle wq ws nw pcs nt dfor closed nc pending].
  - intros t' H. rewrite upd_other by lia. apply (i_supp_t _ _ _ _ I). exact H.
  - intros w' H. rewrite upd_other by lia. apply (i_supp_w _ _ _ _ I). lia.
  - rewrite cnt_upd_new. pose proof (i_acc _ _ _ _ I). pose proof (U is_dial). pose proof (U is_hold).
    cbn [optb is_dial is_hold] in *. lia.
  - apply (i_bound _ _ _ _ I).
  - intros c. pose proof (i_own _ _ _ _ I c) as O. unfold own in *.
    cbn [set_w set_ws set_nw set_pc set_pcs count idle wq ws nw pcs nt dfor closed nc pending].
    rewrite cnt_upd_new. pose proof (U (holds c)). pose proof (Hown c). cbn [optb holds] in *. lia.
  - intros c H. pose proof (i_fresh _ _ _ _ I c H) as O. unfold own in *.
    cbn [set_w set_ws set_nw set_pc set_pcs count idle wq ws nw pcs nt dfor closed nc pending].
    rewrite cnt_upd_new. pose proof (U (holds c)). pose proof (Hown c). cbn [optb holds] in *. lia.
  - pose proof (i_pend _ _ _ _ I). pose proof (U (@anyb pc)). cbn [optb anyb] in *. lia.
  - intros w'. pose proof (i_link _ _ _ _ I w') as L. pose proof (U (waits w')) as U1. cbn [optb waits] in U1.
    unfold upd at 2. destruct (Nat.eqb_spec w' (nw s)) as [->|Ne].
    + rewrite N in L. rewrite Nat.eqb_refl in U1. cbn [optb anyb] in *. lia.
    + assert (E : Nat.eqb (nw s) w' = false) by (apply Nat.eqb_neq; auto). rewrite E in U1. lia.
  - apply (i_queue _ _ _ _ I).
  - intros t' H. destruct (Nat.eq_dec t' t) as [->|Ne].
    + rewrite upd_same in H. discriminate.
    + rewrite upd_other in H by exact Ne. apply (i_pre _ _ _ _ I t' H).
Qed.

Lemma set_werr_inv g s w e tr :
  ws s w = Some WWait -> InvT g s e tr -> InvT g (set_w w (Some WErr) s) e tr.
Proof.
  intros Hw I. pose proof (lt_supp _ _ _ _ (i_supp_w _ _ _ _ I) Hw) as Lw.
  assert (V : forall f, f WWait = false -> f WErr = false -> cnt f (upd (ws s) w (Some WErr)) (nw s) = cnt f (ws s) (nw s)).
  { intros f F1 F2. pose proof (cnt_upd f (ws s) w (Some WErr) (nw s) Lw) as K. rewrite Hw in K. cbn [optb] in K.
    rewrite F1, F2 in K. lia. }
  constructor; cbn [set_w set_ws count idle wq ws nw pcs nt dfor closed nc pending]; try apply I.
  - intros w' H. rewrite upd_other by lia. apply (i_supp_w _ _ _ _ I). exact H.
  - rewrite V by reflexivity. apply (i_acc _ _ _ _ I).
  - intros c. pose proof (i_own _ _ _ _ I c) as O. unfold own in *.
    cbn [set_w set_ws count idle wq ws nw pcs nt dfor closed nc pending]. rewrite V by reflexivity. exact O.
  - intros c H. pose proof (i_fresh _ _ _ _ I c H) as O. unfold own in *.
    cbn [set_w set_ws count idle wq ws nw pcs nt dfor closed nc pending]. rewrite V by reflexivity. exact O.
  - intros w'. rewrite (i_link _ _ _ _ I w'). unfold upd.
    destruct (Nat.eqb_spec w' w) as [->|Ne]; [rewrite Hw|]; reflexivity.
Qed.

Lemma set_wq_full_inv g s q e tr :
  waiton g = true -> idle s = [] -> count s = maxc g -> InvT g s e tr -> InvT g (set_wq q s) e tr.
Proof.
  intros W Hi Hc I. constructor; cbn [set_wq count idle wq ws nw pcs nt dfor closed nc pending]; try apply I.
  intros _. auto.
Qed.

(* ---------- every step preserves the invariant ---------- *)
Lemma rev_cons_eq {A} (l : list A) c r : rev l = c :: r -> l = rev r ++ [c].
Proof. intros H. rewrite <- (rev_involutive l), H. reflexivity. Qed.

Lemma pend_pos g s e tr t p : InvT g s e tr -> pcs s t = Some p -> 1 <= pending s.
Proof.
  intros I P. rewrite (i_pend _ _ _ _ I).
  exact (cnt_ge_one (@anyb pc) (pcs s) (nt s) t p (lt_supp _ _ _ _ (i_supp_t _ _ _ _ I) P) P eq_refl).
Qed.

Lemma pcs_move g s t p0 p e tr e' tr' :
  pcs s t = Some p0 -> InvT g s e tr ->
  optb is_dial (Some p0) + optb is_hold (Some p0) + e = optb is_dial (Some p) + optb is_hold (Some p) + e' ->
  (forall c, optb (holds c) (Some p0) + occ tr c = optb (holds c) (Some p) + occ tr' c) ->
  (forall w, optb (waits w) (Some p0) = optb (waits w) (Some p)) ->
  (p = PPreQueue -> waiton g = true) ->
  InvT g (set_pc t (Some p) s) e' tr'.
Proof.
  intros Hp I A O W Pre.
  change (set_pc t (Some p) s) with (set_pending (pending s) (set_pc t (Some p) s)).
  apply (pcs_change g s t p0 (Some p) e tr e' tr' (pending s) Hp I A O W).
  - cbn [optb anyb]. lia.
  - intros E; inversion E; auto.
Qed.

Lemma pcs_exit g s t p0 e tr e' tr' :
  pcs s t = Some p0 -> InvT g s e tr ->
  optb is_dial (Some p0) + optb is_hold (Some p0) + e = e' ->
  (forall c, optb (holds c) (Some p0) + occ tr c = occ tr' c) ->
  (forall w, optb (waits w) (Some p0) = 0) ->
  InvT g (exit_do t s) e' tr'.
Proof.
  intros Hp I A O W. unfold exit_do.
  change (pending (set_pc t None s)) with (pending s).
  apply (pcs_change g s t p0 None e tr e' tr' (pending s - 1) Hp I).
  - rewrite <- A. cbn [optb]. lia.
  - intros c. cbn [optb]. rewrite <- (O c). cbn [optb]. lia.
  - intros w. rewrite (W w). reflexivity.
  - pose proof (pend_pos _ _ _ _ _ _ I Hp). cbn [optb]. lia.
  - discriminate.
Qed.

Lemma pop_idle_last_inv g s c r e tr :
  idle s = r ++ [c] -> InvT g s e tr -> InvT g (set_idle r s) (S e) (c :: tr).
Proof.
  intros Hi I. constructor; cbn [set_idle count idle wq ws nw pcs nt dfor closed nc pending]; try apply I.
  - pose proof (i_acc _ _ _ _ I) as A. rewrite Hi, app_length in A. cbn [length] in A. lia.
  - intros c'. pose proof (i_own _ _ _ _ I c') as O. unfold own in *.
    cbn [set_idle count idle wq ws nw pcs nt dfor closed nc pending]. rewrite Hi, occ_app, occ_cons, occ_nil in O.
    rewrite occ_cons. lia.
  - intros c' H. pose proof (i_fresh _ _ _ _ I c' H) as O. unfold own in *.
    cbn [set_idle count idle wq ws nw pcs nt dfor closed nc pending]. rewrite Hi, occ_app, occ_cons, occ_nil in O.
    rewrite occ_cons. lia.
  - intros H. destruct (i_queue _ _ _ _ I H) as (_ & K & _). rewrite Hi in K. destruct r; discriminate.
Qed.

Ltac eqb_cases :=
  repeat match goal with
  | |- context[Nat.eqb ?a ?b] => destruct (Nat.eqb_spec a b); subst
  | |- context[Nat.eq_dec ?a ?b] => destruct (Nat.eq_dec a b); subst
  end; try lia; try congruence.
Ltac side := intros; cbn [optb is_dial is_hold holds waits gotc is_got anyb]; rewrite ?occ_cons, ?occ_nil; eqb_cases.

Theorem step_inv g s l s' : Inv g s -> step g s l = Some s' -> Inv g s'.
Proof.
  intros I H. unfold Inv in *. destruct l as [|t|t|t|t ok|w ok|t|t|t o idem|]; cbn [step] in H.
  - (* LEnter *) inversion H; subst. apply enter_inv. exact I.
  - (* LCancelled *)
    destruct (pcs s t) as [[| | | |]|] eqn:P; try discriminate. inversion H; subst.
    eapply pcs_exit; eauto; side.
  - (* LAcquire *)
    destruct (pcs s t) as [[| | | |]|] eqn:P; try discriminate.
    destruct (idle s) as [|c r] eqn:Hi.
    + destruct (count s <? maxc g) eqn:Hc.
      * inversion H; subst. apply Nat.ltb_lt in Hc.
        eapply (pcs_move g (set_count (S (count s)) s) t PEntered PDialing 1 []); eauto.
        apply take_slot_inv; auto. all: side.
      * destruct (waiton g) eqn:W; inversion H; subst.
        -- eapply (pcs_move g s t PEntered PPreQueue 0 []); eauto; side.
        -- eapply pcs_exit; eauto; side.
    + inversion H; subst.
      eapply (pcs_move g (set_idle r s) t PEntered (PHolding c true) 1 [c]); eauto.
      apply pop_idle_inv; auto. all: side.
  - (* LQueue *)
    destruct (pcs s t) as [[| | | |]|] eqn:P; try discriminate.
    destruct (idle s) as [|c r] eqn:Hi.
    + destruct (count s <? maxc g) eqn:Hc; inversion H; subst.
      * apply Nat.ltb_lt in Hc.
        change (InvT g (set_w (nw (set_dfor (dfor s ++ [nw s]) (set_count (S (count s)) s))) (Some WWait)
                  (set_nw (S (nw (set_dfor (dfor s ++ [nw s]) (set_count (S (count s)) s))))
                    (set_pc t (Some (PWaiting (nw (set_dfor (dfor s ++ [nw s]) (set_count (S (count s)) s)))))
                       (set_dfor (dfor s ++ [nw s]) (set_count (S (count s)) s))))) 0 []).
        apply (new_wait_inv g (set_dfor (dfor s ++ [nw s]) (set_count (S (count s)) s)) t WWait 0 [] 0 []); [exact P| | |].
        apply (add_dfor_inv g (set_count (S (count s)) s)). apply take_slot_inv; auto. all: side.
      * apply Nat.ltb_ge in Hc.
        change (InvT g (set_w (nw (set_wq (clear_front (ws s) (wq s) ++ [nw s]) s)) (Some WWait)
                  (set_nw (S (nw (set_wq (clear_front (ws s) (wq s) ++ [nw s]) s)))
                    (set_pc t (Some (PWaiting (nw (set_wq (clear_front (ws s) (wq s) ++ [nw s]) s))))
                       (set_wq (clear_front (ws s) (wq s) ++ [nw s]) s)))) 0 []).
        apply (new_wait_inv g (set_wq (clear_front (ws s) (wq s) ++ [nw s]) s) t WWait 0 [] 0 []); [exact P| | |].
        apply set_wq_full_inv; auto. apply (i_pre _ _ _ _ I t P). pose proof (i_bound _ _ _ _ I). lia. all: side.
    + inversion H; subst.
      change (InvT g (set_w (nw (set_idle r s)) (Some (WGot c))
                (set_nw (S (nw (set_idle r s))) (set_pc t (Some (PWaiting (nw (set_idle r s)))) (set_idle r s)))) 0 []).
      apply (new_wait_inv g (set_idle r s) t (WGot c) 1 [c] 0 []); [exact P| | |].
      apply pop_idle_inv; auto. all: side.
  - (* LDial *)
    destruct (pcs s t) as [[| | | |]|] eqn:P; try discriminate.
    destruct ok; inversion H; subst.
    + change (InvT g (set_pc t (Some (PHolding (nc s) false)) (set_nc (S (nc s)) s)) 0 []).
      eapply (pcs_move g (set_nc (S (nc s)) s) t PDialing (PHolding (nc s) false) 0 [nc s]); eauto.
      apply fresh_conn_inv; auto. all: side.
    + apply dec_inv. eapply pcs_exit; eauto; side.
  - (* LDialFor *)
    destruct (remove_first w (dfor s)) as [r|] eqn:R; [|discriminate].
    pose proof (del_dfor_inv g s r w 0 [] R I) as I0.
    destruct ok.
    + pose proof (fresh_conn_inv g _ _ _ I0) as I1. cbn [set_dfor nc] in I1.
      destruct (ws s w) as [[| |]|] eqn:Hw; inversion H; subst; try (apply release_inv; exact I1).
      apply deliver_inv; [exact Hw|exact I1].
    + destruct (ws s w) as [[| |]|] eqn:Hw; inversion H; subst; try (apply dec_inv; exact I0).
      apply dec_inv. apply set_werr_inv; [exact Hw|exact I0].
  - (* LWake *)
    destruct (pcs s t) as [[| | |w|]|] eqn:P; try discriminate.
    pose proof (pend_pos _ _ _ _ _ _ I P) as PP.
    destruct (ws s w) as [[|c|]|] eqn:Hw; try discriminate; inversion H; subst.
    + change (InvT g (set_pending (pending s) (set_pc t (Some (PHolding c true)) (set_w w None s))) 0 []).
      apply (unwait_change g s t w (WGot c) (Some (PHolding c true)) 0 [] 0 [] (pending s) P Hw I); side.
    + unfold exit_do. change (pending (set_pc t None (set_w w None s))) with (pending s).
      apply (unwait_change g s t w WErr None 0 [] 0 [] (pending s - 1) P Hw I); side.
  - (* LTimeout *)
    destruct (pcs s t) as [[| | |w|]|] eqn:P; try discriminate.
    pose proof (pend_pos _ _ _ _ _ _ I P) as PP.
    destruct (ws s w) as [[|c|]|] eqn:Hw; try discriminate; inversion H; subst.
    + unfold exit_do. change (pending (set_pc t None (set_w w None s))) with (pending s).
      apply (unwait_change g s t w WWait None 0 [] 0 [] (pending s - 1) P Hw I); side.
    + apply release_inv.
      unfold exit_do. change (pending (set_pc t None (set_w w None s))) with (pending s).
      apply (unwait_change g s t w (WGot c) None 0 [] 1 [c] (pending s - 1) P Hw I); side.
    + unfold exit_do. change (pending (set_pc t None (set_w w None s))) with (pending s).
      apply (unwait_change g s t w WErr None 0 [] 0 [] (pending s - 1) P Hw I); side.
  - (* LExchange *)
    destruct (pcs s t) as [[| | | |c inpool]|] eqn:P; try discriminate. inversion H; subst.
    assert (I0 : InvT g (if may_retry o inpool idem then set_pc t (Some PEntered) s else exit_do t s) 1 [c]).
    { destruct (may_retry o inpool idem).
      - eapply (pcs_move g s t (PHolding c inpool) PEntered 0 []); eauto; side.
      - eapply pcs_exit; eauto; side. }
    destruct (should_close o); [apply close_inv|apply release_inv]; exact I0.
  - (* LCloseIdle *)
    destruct (rev (idle s)) as [|c r] eqn:Hi; [discriminate|]. inversion H; subst.
    apply close_inv. apply pop_idle_last_inv; auto. apply rev_cons_eq. exact Hi.
Qed.

(* ---------- reachable states ---------- *)
Definition reachable (g : cfg) (s : st) : Prop := exists ls, run g init ls = Some s.

Lemma run_inv g : forall ls s s', Inv g s -> run g s ls = Some s' -> Inv g s'.
Proof.
  induction ls as [|l ls IH]; intros s s' I H; cbn [run] in H.
  - inversion H; subst; exact I.
  - destruct (step g s l) as [s1|] eqn:E; [|discriminate]. apply (IH s1); [eapply step_inv; eauto|exact H].
Qed.

Theorem reachable_inv g s : reachable g s -> Inv g s.
Proof. intros [ls H]. eapply run_inv; [apply inv_init|exact H]. Qed.

Lemma run_app g : forall l1 l2 s s1, run g s l1 = Some s1 -> run g s (l1 ++ l2) = run g s1 l2.
Proof.
  induction l1 as [|l l1 IH]; intros l2 s s1 H; cbn [run app] in *.
  - inversion H; reflexivity.
  - destruct (step g s l); [apply IH; exact H|discriminate].
Qed.

Lemma reachable_step g s l s' : reachable g s -> step g s l = Some s' -> reachable g s'.
Proof.
  intros [ls H] E. exists (ls ++ [l]). rewrite (run_app g ls [l] init s H). cbn [run]. rewrite E. reflexivity.
Qed.

(* ---------- what the invariant says ---------- *)
Lemma occ_pos l c : In c l -> 1 <= occ l c.
Proof. intros H. unfold occ. apply (count_occ_In Nat.eq_dec) in H. lia. Qed.
Lemma occ_zero l c : occ l c = 0 -> ~ In c l.
Proof. unfold occ. apply count_occ_not_In. Qed.

Section Consequences.
  Variables (g : cfg) (s : st).
  Hypothesis I : Inv g s.

  (* at most one request at a time on a connection *)
  Theorem exclusive t1 t2 c b1 b2 :
    pcs s t1 = Some (PHolding c b1) -> pcs s t2 = Some (PHolding c b2) -> t1 = t2.
  Proof.
    intros H1 H2. pose proof (i_own _ _ _ _ I c) as O. unfold own in O.
    eapply (cnt_unique (holds c) (pcs s) (nt s) t1 t2); eauto; try lia;
      try (eapply lt_supp; [apply (i_supp_t _ _ _ _ I)|eauto]); cbn [holds]; apply Nat.eqb_refl.
  Qed.

  Theorem held_elsewhere_nowhere t c b :
    pcs s t = Some (PHolding c b) ->
    ~ In c (idle s) /\ ~ In c (closed s) /\ (forall w, ws s w <> Some (WGot c)) /\ c < nc s.
  Proof.
    intros H. pose proof (i_own _ _ _ _ I c) as O. unfold own in O. rewrite occ_nil in O.
    pose proof (cnt_ge_one (holds c) (pcs s) (nt s) t _ (lt_supp _ _ _ _ (i_supp_t _ _ _ _ I) H) H) as K.
    cbn [holds] in K. rewrite Nat.eqb_refl in K. specialize (K eq_refl).
    repeat split.
    - apply occ_zero. lia.
    - apply occ_zero. lia.
    - intros w Hw. pose proof (cnt_ge_one (gotc c) (ws s) (nw s) w _ (lt_supp _ _ _ _ (i_supp_w _ _ _ _ I) Hw) Hw) as K2.
      cbn [gotc] in K2. rewrite Nat.eqb_refl in K2. specialize (K2 eq_refl). lia.
    - destruct (le_lt_dec (nc s) c) as [L|L]; [|exact L].
      pose proof (i_fresh _ _ _ _ I c L) as F. unfold own in F. lia.
  Qed.

  Theorem idle_distinct_and_open : NoDup (idle s) /\ forall c, In c (idle s) -> ~ In c (closed s).
  Proof.
    split.
    - apply (NoDup_count_occ Nat.eq_dec). intros c. pose proof (i_own _ _ _ _ I c) as O. unfold own, occ in O. lia.
    - intros c H. apply occ_pos in H. pose proof (i_own _ _ _ _ I c) as O. unfold own in O. apply occ_zero. lia.
  Qed.

  (* a closed connection is in nobody's hands, not idle, not on its way to a waiter, and was closed once *)
  Theorem closed_is_gone c : In c (closed s) ->
    ~ In c (idle s) /\ (forall t b, pcs s t <> Some (PHolding c b)) /\ (forall w, ws s w <> Some (WGot c)) /\ occ (closed s) c = 1.
  Proof.
    intros H. apply occ_pos in H. pose proof (i_own _ _ _ _ I c) as O. unfold own in O. rewrite occ_nil in O.
    repeat split.
    - apply occ_zero. lia.
    - intros t b Ht. pose proof (cnt_ge_one (holds c) (pcs s) (nt s) t _ (lt_supp _ _ _ _ (i_supp_t _ _ _ _ I) Ht) Ht) as K.
      cbn [holds] in K. rewrite Nat.eqb_refl in K. specialize (K eq_refl). lia.
    - intros w Hw. pose proof (cnt_ge_one (gotc c) (ws s) (nw s) w _ (lt_supp _ _ _ _ (i_supp_w _ _ _ _ I) Hw) Hw) as K2.
      cbn [gotc] in K2. rewrite Nat.eqb_refl in K2. specialize (K2 eq_refl). lia.
    - lia.
  Qed.

  Theorem bounded : count s <= maxc g.
  Proof. apply (i_bound _ _ _ _ I). Qed.

  Theorem accounted : count s = cnt is_dial (pcs s) (nt s) + length (dfor s) + cnt is_hold (pcs s) (nt s)
                                + length (idle s) + cnt is_got (ws s) (nw s).
  Proof. rewrite (i_acc _ _ _ _ I). lia. Qed.

  Theorem gauge : pending s = cnt anyb (pcs s) (nt s).
  Proof. apply (i_pend _ _ _ _ I). Qed.

  (* once every call has returned and no background dial is running *)
  Theorem quiescent :
    (forall t, pcs s t = None) -> dfor s = [] ->
    count s = length (idle s) /\ pending s = 0 /\ (forall w, ws s w = None) /\ (0 < maxc g -> wq s = []).
  Proof.
    intros Hp Hd.
    assert (Z : forall f, cnt f (pcs s) (nt s) = 0) by (intros f; apply cnt_none; intros; apply Hp).
    assert (W : forall w, ws s w = None).
    { intros w. pose proof (i_link _ _ _ _ I w) as L. rewrite Z in L. destruct (ws s w); [discriminate|reflexivity]. }
    assert (G : cnt is_got (ws s) (nw s) = 0) by (apply cnt_none; intros; apply W).
    assert (C : count s = length (idle s)).
    { rewrite (i_acc _ _ _ _ I), !Z, Hd, G. cbn [length]. lia. }
    repeat split; auto.
    - rewrite (i_pend _ _ _ _ I). apply Z.
    - intros M. destruct (wq s) eqn:Q; [reflexivity|].
      destruct (i_queue _ _ _ _ I) as (_ & Hi & Hc); [rewrite Q; discriminate|].
      rewrite Hi in C. cbn [length] in C. lia.
  Qed.
End Consequences.

(* ---------- the close-or-release decision ---------- *)
Lemma release_fields g c s : pcs (release g c s) = pcs s /\ closed (release g c s) = closed s /\ nt (release g c s) = nt s.
Proof.
  unfold release. destruct (waiton g); [destruct (pop_live (ws s) (wq s)) as [[w|] r]|]; cbn; auto.
Qed.
Lemma dec_fields g s : pcs (dec g s) = pcs s /\ closed (dec g s) = closed s /\ nt (dec g s) = nt s
                       /\ idle (dec g s) = idle s /\ ws (dec g s) = ws s.
Proof.
  unfold dec. destruct (waiton g); [destruct (pop_live (ws s) (wq s)) as [[w|] r]|]; cbn; auto.
Qed.
Lemma close_fields g c s : pcs (close_conn g c s) = pcs s /\ closed (close_conn g c s) = c :: closed s
                           /\ nt (close_conn g c s) = nt s.
Proof. unfold close_conn. destruct (dec_fields g s) as (A & B & C & _). cbn. rewrite A, B, C. auto. Qed.

(* nothing ever leaves the set of closed connections *)
Theorem closed_monotone g s l s' : step g s l = Some s' -> incl (closed s) (closed s').
Proof.
  intros H c Hc.
  destruct l as [|t|t|t|t ok|w ok|t|t|t o idem|]; cbn [step] in H;
    repeat match type of H with
    | match ?x with _ => _ end = Some _ => destruct x eqn:?; try discriminate
    | (if ?x then _ else _) = Some _ => destruct x eqn:?
    end; inversion H; subst; clear H;
    repeat first [ rewrite (proj1 (proj2 (release_fields _ _ _)))
                 | rewrite (proj1 (proj2 (dec_fields _ _)))
                 | rewrite (proj1 (proj2 (close_fields _ _ _))) ];
    cbn; auto.
  destruct (should_close o);
    [rewrite (proj1 (proj2 (close_fields _ _ _)))|rewrite (proj1 (proj2 (release_fields _ _ _)))];
    destruct (may_retry o inpool idem); cbn; auto.
Qed.

(* an exchange that did not end cleanly closes the connection, whatever else happens *)
Theorem dirty_is_closed g s t c ip o idem s' :
  pcs s t = Some (PHolding c ip) -> should_close o = true ->
  step g s (LExchange t o idem) = Some s' -> In c (closed s').
Proof.
  intros P Sc H. cbn [step] in H. rewrite P, Sc in H. inversion H; subst.
  rewrite (proj1 (proj2 (close_fields _ _ _))). left; reflexivity.
Qed.

Theorem should_close_spec o : should_close o = false <-> o = OClean.
Proof. destruct o; cbn; split; intros H; congruence. Qed.

Lemma pcs_release g c s : pcs (release g c s) = pcs s. Proof. apply release_fields. Qed.
Lemma pcs_dec g s : pcs (dec g s) = pcs s. Proof. apply dec_fields. Qed.
Lemma pcs_close g c s : pcs (close_conn g c s) = pcs s. Proof. apply close_fields. Qed.

Definition actor (l : label) : option nat :=
  match l with
  | LEnter | LDialFor _ _ | LCloseIdle => None
  | LCancelled t | LAcquire t | LQueue t | LDial t _ | LWake t | LTimeout t | LExchange t _ _ => Some t
  end.

(* a step touches the program counter of its own caller only (LEnter: of the new call) *)
Lemma step_frame g s l s' t :
  step g s l = Some s' -> actor l <> Some t -> (l = LEnter -> t <> nt s) -> pcs s' t = pcs s t.
Proof.
  intros H A E.
  destruct l as [|t'|t'|t'|t' ok|w ok|t'|t'|t' o idem|]; cbn [step] in H; cbn [actor] in A;
    repeat match type of H with
    | match ?x with _ => _ end = Some _ => destruct x eqn:?; try discriminate
    | (if ?x then _ else _) = Some _ => destruct x eqn:?
    end; inversion H; subst; clear H;
    repeat first [rewrite pcs_release | rewrite pcs_dec | rewrite pcs_close];
    cbn [pcs set_pending set_nt set_pc set_pcs set_w set_ws set_nw set_idle set_count set_dfor set_wq set_nc set_closed exit_do];
    try reflexivity; try (apply upd_other; congruence).
  - apply upd_other. apply E. reflexivity.
  - destruct (should_close o); [rewrite pcs_close|rewrite pcs_release];
      destruct (may_retry o inpool idem); cbn [pcs set_pending set_pc set_pcs exit_do]; apply upd_other; congruence.
Qed.

(* a connection in a caller's hands stays there under every step but that caller's own exchange *)
Lemma holder_keeps g s l s' t c ip :
  Inv g s -> pcs s t = Some (PHolding c ip) -> step g s l = Some s' ->
  (forall o idem, l <> LExchange t o idem) -> pcs s' t = Some (PHolding c ip).
Proof.
  intros I P H N. rewrite <- P. apply (step_frame g s l s' t H).
  - intros A. destruct l as [|t'|t'|t'|t' ok|w ok|t'|t'|t' o idem|]; cbn [actor] in A; try discriminate;
      inversion A; subst; cbn [step] in H; rewrite P in H; try discriminate.
    exact (N o idem eq_refl).
  - intros _ Et. subst. rewrite (i_supp_t _ _ _ _ I (nt s) (le_n _)) in P. discriminate.
Qed.

(* A connection that a caller held goes back to the idle stack or to a waiter only through that
   caller's exchange, and only when the exchange ended cleanly. *)
Theorem reuse_only_after_clean_exchange g s l s' t c ip :
  Inv g s -> pcs s t = Some (PHolding c ip) -> step g s l = Some s' ->
  (In c (idle s') \/ exists w, ws s' w = Some (WGot c)) ->
  exists idem, l = LExchange t OClean idem.
Proof.
  intros I P H R. pose proof (step_inv g s l s' I H) as I'.
  assert (D : (forall o idem, l <> LExchange t o idem) \/ exists o idem, l = LExchange t o idem).
  { destruct l as [|t'|t'|t'|t' ok|w ok|t'|t'|t' o idem|]; try (left; intros; discriminate).
    destruct (Nat.eq_dec t' t) as [->|Ne]; [right; eauto|left; intros o' i' E; inversion E; congruence]. }
  destruct D as [D|(o & idem & ->)].
  - pose proof (holder_keeps g s l s' t c ip I P H D) as P'.
    destruct (held_elsewhere_nowhere g s' I' t c ip P') as (A & _ & B & _).
    destruct R as [R|[w R]]; [contradiction|]. exfalso. exact (B w R).
  - destruct (should_close o) eqn:Sc.
    + pose proof (dirty_is_closed g s t c ip o idem s' P Sc H) as Cl.
      destruct (closed_is_gone g s' I' c Cl) as (A & _ & B & _).
      destruct R as [R|[w R]]; [contradiction|]. exfalso. exact (B w R).
    + apply should_close_spec in Sc. subst. eauto.
Qed.

(* a request that is not safe to repeat is never sent again: its call leaves Do after one exchange *)
Theorem non_idempotent_single_attempt g s t o s' :
  step g s (LExchange t o false) = Some s' -> pcs s' t = None.
Proof.
  intros H. cbn [step] in H. destruct (pcs s t) as [[| | | |c ip]|] eqn:P; try discriminate.
  assert (M : may_retry o ip false = false) by (destruct o; cbn; auto; apply andb_false_r).
  rewrite M in H. inversion H; subst.
  destruct (should_close o); [rewrite pcs_close|rewrite pcs_release]; cbn; apply upd_same.
Qed.

(* and a call that left Do never comes back under the same identity *)
Theorem finished_call_stays_finished g s l s' t :
  t < nt s -> pcs s t = None -> step g s l = Some s' -> t < nt s' /\ pcs s' t = None.
Proof.
  intros Lt P H. split.
  - destruct l as [|t'|t'|t'|t' ok|w ok|t'|t'|t' o idem|]; cbn [step] in H;
      repeat match type of H with
      | match ?x with _ => _ end = Some _ => destruct x eqn:?; try discriminate
      | (if ?x then _ else _) = Some _ => destruct x eqn:?
      end; inversion H; subst; clear H;
      repeat first [rewrite (proj2 (proj2 (release_fields _ _ _))) | rewrite (proj1 (proj2 (proj2 (dec_fields _ _))))
                   | rewrite (proj2 (proj2 (close_fields _ _ _)))]; cbn; try lia.
    destruct (should_close o); [rewrite (proj2 (proj2 (close_fields _ _ _)))|rewrite (proj2 (proj2 (release_fields _ _ _)))];
      destruct (may_retry o inpool idem); cbn; lia.
  - rewrite <- P. apply (step_frame g s l s' t H).
    + intros A. destruct l as [|t'|t'|t'|t' ok|w ok|t'|t'|t' o idem|]; cbn [actor] in A; try discriminate;
        inversion A; subst; cbn [step] in H; rewrite P in H; discriminate.
    + intros _ E. lia.
Qed.

(* ---------- the histories of the correspondence check are runs of the LTS ---------- *)
Lemma step_or_reachable g s l : reachable g s -> reachable g (step_or g s l).
Proof. intros R. unfold step_or. destruct (step g s l) eqn:E; [eapply reachable_step; eauto|exact R]. Qed.

Lemma settle_reachable g : forall fuel df s, reachable g s -> reachable g (settle fuel g df s).
Proof.
  induction fuel as [|f IH]; intros df s R; cbn [settle]; [exact R|].
  destruct (dfor s) as [|w r].
  - destruct (first_wakeable s (nt s)); [apply IH; apply step_or_reachable; exact R|exact R].
  - apply IH. apply step_or_reachable. exact R.
Qed.

Lemma advance_reachable g df t s : reachable g s -> reachable g (advance g df t s).
Proof.
  intros R. unfold advance.
  pose proof (step_or_reachable g s (LAcquire t) R) as R1.
  destruct (pcs (step_or g s (LAcquire t)) t) as [[| | | |]|]; auto.
  - apply settle_reachable. apply step_or_reachable. exact R1.
  - apply step_or_reachable. exact R1.
Qed.

Lemma fold_step_or_reachable g (f : nat -> label) : forall l s, reachable g s ->
  reachable g (fold_left (fun s t => step_or g s (f t)) l s).
Proof. induction l as [|t l IH]; intros s R; cbn [fold_left]; [exact R|]. apply IH. apply step_or_reachable. exact R. Qed.

Lemma close_all_idle_reachable g : forall fuel s, reachable g s -> reachable g (close_all_idle fuel g s).
Proof.
  induction fuel as [|f IH]; intros s R; cbn [close_all_idle]; [exact R|].
  destruct (idle s); [exact R|]. apply IH. apply step_or_reachable. exact R.
Qed.

Theorem apply_op_reachable g s op : reachable g s -> reachable g (apply_op g s op).
Proof.
  intros R. unfold apply_op.
  repeat match goal with |- context[if ?b then _ else _] => destruct b end; auto.
  - apply advance_reachable. apply step_or_reachable. exact R.
  - apply step_or_reachable. apply step_or_reachable. exact R.
  - unfold after_exchange.
    set (s1 := step_or g s _). assert (R1 : reachable g s1) by (apply step_or_reachable; exact R).
    destruct (pcs s1 _) as [[| | | |]|]; try (apply settle_reachable; exact R1).
    apply settle_reachable. apply advance_reachable. exact R1.
  - destruct (split_colon op []) as [|x0 [|x1 [|x2 x3]]]; apply settle_reachable;
      try (apply (fold_step_or_reachable g LTimeout); exact R); apply step_or_reachable; exact R.
  - apply settle_reachable. apply close_all_idle_reachable. exact R.
Qed.
