(* C08: the body and the framing of a range response are consistent with the file. *)
From Coq Require Import String.
From Coq Require Import List Strings.Byte NArith ZArith Bool Arith Lia.
Require Import Bytes Show Res Tables Range RangeProofs DecProofs.
Import ListNotations.

(* the bytes the handler streams for an accepted range: UpdateByteRange(start, end) then end-start+1 bytes *)
Definition file_slice (f : bs) (st en : Z) : bs := firstn (Z.to_nat (en - st + 1)) (skipn (Z.to_nat st) f).

Lemma nth_firstn {A} : forall (n i : nat) (l : list A), (i < n)%nat -> nth_error (firstn n l) i = nth_error l i.
Proof.
  induction n as [|n IH]; intros i l H; [lia|]. destruct l as [|x l]; [destruct i; reflexivity|].
  destruct i as [|i]; [reflexivity|]. cbn [firstn nth_error]. apply IH. lia.
Qed.

Theorem range_slice_consistent (f r : bs) (a b : Z) :
  parse_byte_range r (Z.of_nat (length f)) = Some (a, b) ->
  let body := file_slice f a b in
  Z.of_nat (length body) = (b - a + 1)%Z /\
  (forall i, (i < length body)%nat -> nth_error body i = nth_error f (Z.to_nat a + i)) /\
  exists cr, set_content_range a b (Z.of_nat (length f)) = Ok cr.
Proof.
  intros H body. destruct (range_in_bounds r (Z.of_nat (length f)) a b ltac:(lia) H) as (A0 & AB & BL).
  assert (Lb : length body = Z.to_nat (b - a + 1)).
  { unfold body, file_slice. rewrite firstn_length, skipn_length. lia. }
  split; [rewrite Lb; lia|]. split.
  - intros i Hi. unfold body, file_slice. rewrite nth_firstn by (rewrite <- Lb; exact Hi).
    clear. revert f. induction (Z.to_nat a) as [|n IH]; intros f; [reflexivity|].
    destruct f as [|x f]; [cbn; destruct i; reflexivity|]. cbn [skipn Nat.add nth_error]. apply IH.
  - unfold set_content_range, append_uint.
    replace (a <? 0)%Z with false by (symmetry; apply Z.ltb_ge; lia).
    replace (b <? 0)%Z with false by (symmetry; apply Z.ltb_ge; lia).
    replace (Z.of_nat (length f) <? 0)%Z with false by (symmetry; apply Z.ltb_ge; lia).
    cbn [rbind]. eauto.
Qed.
