(* C15 proofs: the decoding loop computes the declarative priority rule; the decoder cache is
   transparent over every history of binds; the integer conversions are the strconv rules. *)
From Coq Require Import String.
From Coq Require Import List Strings.Byte NArith ZArith Bool Arith Lia.
Require Import Bytes Show Bind DecProofs.
Import ListNotations.

(* ---------- the priority rule, stated without a loop ---------- *)
Definition is_json (t : tag) : bool := match t_src t with SJson => true | _ => false end.
Definition text_tag (t : tag) : bool := negb (is_json t) && negb (t_skip t).

Definition lookup_tag (slice : bool) (q : request) (t : tag) : option (list bs) :=
  if slice then (match getn (t_src t) q (t_name t) with [] => None | l => Some l end)
  else (match get1 (t_src t) q (t_name t) with Some v => Some [v] | None => None end).

(* the first text source, in tag order, that is named (not skipped) and carries the name *)
Fixpoint first_text (slice : bool) (q : request) (tags : list tag) : option (list bs) :=
  match tags with
  | [] => None
  | t :: r => if text_tag t then match lookup_tag slice q t with Some l => Some l | None => first_text slice q r end
              else first_text slice q r
  end.

Definition required_somewhere (tags : list tag) : bool :=
  existsb (fun t => t_req t && (is_json t || negb (t_skip t))) tags.
Definition json_tag_has (q : request) (tags : list tag) : bool :=
  existsb (fun t => is_json t && json_has q (t_name t)) tags.
Definition has_text_or_json_tag (tags : list tag) : bool := existsb (fun t => is_json t || negb (t_skip t)) tags.

Definition is_empty (b : bs) : bool := match b with [] => true | _ => false end.

(* well-formed tag list as lookupFieldTags builds it: the json tag, if any, comes last *)
Fixpoint json_last (tags : list tag) : Prop :=
  match tags with
  | [] => True
  | t :: r => (is_json t = true -> r = []) /\ json_last r
  end.

Definition spec_decide (f : field) (q : request) : outcome :=
  let tags := f_tags f in
  let slice := f_slice f in
  match first_text slice q tags with
  | Some l =>
      let empty := if slice then false else (match l with [[]] => true | _ => false end) in
      if empty && negb (is_empty (f_default f)) then OTexts (default_texts slice (f_default f)) true else OTexts l false
  | None =>
      if json_tag_has q tags then OKeep                    (* the body has it: the pre-bound value stays *)
      else if required_somewhere tags then OErrRequired    (* nowhere, and some tag demands it *)
      else if negb (is_empty (f_default f)) && has_text_or_json_tag tags then OTexts (default_texts slice (f_default f)) true
      else OKeep
  end.

Lemma lookup_tag_nonempty slice q t l : lookup_tag slice q t = Some l -> l <> [].
Proof.
  unfold lookup_tag. destruct slice.
  - destruct (getn (t_src t) q (t_name t)); [discriminate|]. intros H; inversion H; discriminate.
  - destruct (get1 (t_src t) q (t_name t)); [|discriminate]. intros H; inversion H; discriminate.
Qed.

(* what the loop returns, by induction over the tag list *)
Lemma scan_spec slice q dflt : forall tags err dv, json_last tags ->
  scan slice q dflt tags err dv =
  match first_text slice q tags with
  | Some l => (false, Some l, dflt)
  | None =>
      (if json_tag_has q tags then false
       else if required_somewhere tags then true else err,
       None,
       if json_tag_has q tags then (if negb (is_empty dflt) then [] else dflt)
       else if has_text_or_json_tag tags then dflt else dv)
  end.
Proof.
  destruct slice.
  all: induction tags as [|t r IH]; intros err dv JL; [reflexivity|];
    destruct JL as [J1 J2]; cbn [scan first_text];
    unfold text_tag, is_json, lookup_tag in *;
    destruct (t_src t) eqn:S; cbn [negb andb].
  all: try (destruct (t_skip t) eqn:K; cbn [negb andb];
            [ rewrite (IH _ _ J2); destruct (first_text _ q r); [reflexivity|];
              unfold json_tag_has, required_somewhere, has_text_or_json_tag, is_json; cbn [existsb]; rewrite S, K;
              cbn [andb orb negb]; rewrite ?andb_false_r; cbn [orb]; reflexivity
            | first [ destruct (getn _ q (t_name t)) as [|x l] eqn:F | destruct (get1 _ q (t_name t)) as [x|] eqn:F ];
              try reflexivity;
              rewrite (IH _ _ J2); destruct (first_text _ q r); [reflexivity|];
              unfold json_tag_has, required_somewhere, has_text_or_json_tag, is_json; cbn [existsb]; rewrite S, K;
              cbn [andb orb negb]; destruct (t_req t); cbn [andb orb];
              repeat match goal with |- context[existsb ?f ?rr] => destruct (existsb f rr) end; reflexivity ]).
  (* the json tag: it is the last one *)
  all: specialize (J1 eq_refl); subst r; cbn [scan first_text];
    unfold json_tag_has, required_somewhere, has_text_or_json_tag, is_json; cbn [existsb]; rewrite S;
    cbn [andb orb]; rewrite !orb_false_r, ?andb_true_r;
    destruct (json_has q (t_name t)); cbn [andb negb]; destruct (t_req t); cbn; destruct dflt; reflexivity.
Qed.

Theorem decide_is_priority_rule f q : json_last (f_tags f) -> decide f q = spec_decide f q.
Proof.
  intros JL. unfold decide, spec_decide. rewrite (scan_spec _ _ _ _ _ _ JL).
  destruct (first_text (f_slice f) q (f_tags f)) as [l|] eqn:F.
  - assert (Ne : l <> []).
    { clear -F. revert F. induction (f_tags f) as [|t r IH]; cbn [first_text]; [discriminate|].
      destruct (text_tag t); auto. destruct (lookup_tag (f_slice f) q t) eqn:L; auto.
      intros H; inversion H; subst. eapply lookup_tag_nonempty; eauto. }
    destruct (f_slice f).
    + destruct l; [congruence|]. cbn [andb]. reflexivity.
    + destruct l as [|[|c x] [|y z]]; try congruence; cbn [andb]; destruct (f_default f); reflexivity.
  - destruct (json_tag_has q (f_tags f)).
    + destruct (f_slice f), (f_default f); reflexivity.
    + destruct (required_somewhere (f_tags f)); [reflexivity|].
      destruct (has_text_or_json_tag (f_tags f)); destruct (f_slice f), (f_default f); reflexivity.
Qed.

(* ---------- the decoder cache is transparent ---------- *)
Definition cache_ok (types : nat -> list field) (c : cache) : Prop :=
  forall id d, lookup id c = Some d -> d = compile (types id).

Lemma bind_cached_ok types c id q :
  cache_ok types c ->
  cache_ok types (fst (bind_cached types c id q)) /\ snd (bind_cached types c id q) = run_fields (types id) q.
Proof.
  intros OK. unfold bind_cached. destruct (lookup id c) as [d|] eqn:L; cbn [fst snd].
  - split; [exact OK|]. rewrite (OK _ _ L). reflexivity.
  - split; [|reflexivity]. intros id' d' H. cbn [lookup] in H.
    destruct (Nat.eqb_spec id id') as [->|Ne]; [inversion H; reflexivity|apply OK; exact H].
Qed.

(* for every history of binds (any types, any order, cold or warm cache), each bind returns what
   binding that type alone would return *)
Theorem history_independent types : forall h c, cache_ok types c ->
  bind_history types c h = map (fun iq => run_fields (types (fst iq)) (snd iq)) h.
Proof.
  induction h as [|[id q] r IH]; intros c OK; cbn [bind_history map]; [reflexivity|].
  destruct (bind_cached_ok types c id q OK) as [OK' E].
  destruct (bind_cached types c id q) as [c' res]. cbn [fst snd] in *. rewrite E, (IH c' OK'). reflexivity.
Qed.

Lemma cache_ok_empty types : cache_ok types [].
Proof. intros id d H. discriminate. Qed.

(* ---------- the integer conversions ---------- *)
Lemma digits_val_spec : forall ds acc, Forall is_digit ds ->
  digits_val ds acc = Some (Z.to_N (val_from (Z.of_N acc) ds)).
Proof.
  induction ds as [|c r IH]; intros acc F; cbn [digits_val val_from fold_left].
  - rewrite N2Z.id. reflexivity.
  - inversion F as [|? ? Hc Fr]; subst. unfold is_digit, digit_of in Hc.
    assert (D : Bind.is_digit c = true).
    { unfold Bind.is_digit. apply andb_true_iff. split; apply N.leb_le; lia. }
    rewrite D. rewrite (IH _ Fr). f_equal. f_equal. unfold val_from. cbn [fold_left]. f_equal.
    unfold digit_of. lia.
Qed.

Lemma parse_udec_show n : parse_udec (show_N n) = Some n.
Proof.
  destruct (show_N_spec n) as (V & F & Ne). unfold parse_udec.
  remember (show_N n) as ds eqn:E. destruct ds as [|c r]; [congruence|].
  rewrite (digits_val_spec _ 0 F). cbn [Z.of_N]. rewrite V, N2Z.id. reflexivity.
Qed.

Lemma pow2_ZN b : (2 ^ Z.of_N b)%Z = Z.of_N (2 ^ b).
Proof. rewrite N2Z.inj_pow. reflexivity. Qed.

Theorem parse_uint_range bits s z : parse_uint bits s = Some z -> (0 <= z < 2 ^ Z.of_N bits)%Z.
Proof.
  unfold parse_uint. destruct (parse_udec s) as [n|]; [|discriminate].
  destruct (N.ltb n (2 ^ bits)) eqn:L; [|discriminate]. intros H; inversion H; subst.
  apply N.ltb_lt in L. split; [lia|]. rewrite pow2_ZN. lia.
Qed.

Theorem parse_int_range bits s z : (0 < bits)%N -> parse_int bits s = Some z ->
  (- 2 ^ (Z.of_N bits - 1) <= z < 2 ^ (Z.of_N bits - 1))%Z.
Proof.
  intros Hb. unfold parse_int.
  destruct (match s with
            | c :: r => if Byte.eqb c "-"%byte then (true, r) else if Byte.eqb c "+"%byte then (false, r) else (false, s)
            | [] => (false, [])
            end) as [neg body].
  destruct (parse_udec body) as [n|]; [|discriminate].
  assert (P : (2 ^ (Z.of_N bits - 1) = Z.of_N (2 ^ (bits - 1)))%Z).
  { rewrite <- pow2_ZN. f_equal. lia. }
  destruct neg.
  - destruct (N.leb n (2 ^ (bits - 1))) eqn:L; [|discriminate]. intros H; inversion H; subst.
    apply N.leb_le in L. rewrite P. lia.
  - destruct (N.ltb n (2 ^ (bits - 1))) eqn:L; [|discriminate]. intros H; inversion H; subst.
    apply N.ltb_lt in L. rewrite P. lia.
Qed.

Theorem parse_uint_show bits (n : N) : (n < 2 ^ bits)%N -> parse_uint bits (show_N n) = Some (Z.of_N n).
Proof.
  intros H. unfold parse_uint. rewrite parse_udec_show. apply N.ltb_lt in H. rewrite H. reflexivity.
Qed.
