(* C14, chunked streams: reading a chunked body through bodyStream.Read with any buffer sizes
   yields a prefix of the body, EOF only at its end, and skipRest leaves the connection at the
   first byte after the message, wherever the handler stopped. *)
From Coq Require Import String.
From Coq Require Import List Strings.Byte NArith ZArith Bool Arith Lia ZifyN ZifyNat ZifyBool.
Require Import Bytes Show Res Tables Codec Chunk ChunkProofs BodyStream.
Import ListNotations.

(* where a reader can be inside the message  enchunk cs ++ CRLF ++ rest : *)
Inductive at_pos (rest : bs) : bs (* data left in the current chunk *) -> list bs (* later chunks *) -> cstream -> Prop :=
| AtEnd : at_pos rest [] [] {| cleft := 0; ceof := true; cwire := rest |}
| AtBoundary later : Forall chunk_ok later ->
    at_pos rest [] later {| cleft := 0; ceof := false; cwire := enchunk later ++ CRLF ++ rest |}
| InChunk d later : d <> [] -> (N.of_nat (length d) < 16 ^ 15)%N -> Forall chunk_ok later ->
    at_pos rest d later {| cleft := N.of_nat (length d); ceof := false; cwire := d ++ CRLF ++ enchunk later ++ CRLF ++ rest |}.

Definition remaining (d : bs) (later : list bs) : bs := d ++ concat later.

Lemma take_crlf_app w : take_crlf (CRLF ++ w) = Some w.
Proof. reflexivity. Qed.

Lemma skip_trailer_empty w : skip_trailer (S (length (CRLF ++ w))) (CRLF ++ w) = Some w.
Proof. reflexivity. Qed.

Lemma enchunk_cons c cs w : enchunk (c :: cs) ++ w = write_hex (N.of_nat (length c)) ++ CRLF ++ (c ++ CRLF ++ enchunk cs ++ w).
Proof. unfold enchunk. cbn [flat_map]. unfold enchunk1 at 1. rewrite <- !app_assoc. reflexivity. Qed.

Lemma enchunk_nil w : enchunk [] ++ w = write_hex 0 ++ CRLF ++ w.
Proof. unfold enchunk, last_chunk. cbn [flat_map app]. rewrite <- app_assoc. reflexivity. Qed.

(* one Read never fails inside a well-formed message, returns the next bytes of the body, and
   leaves the reader at a position of the same message *)
Lemma read_step rest d later s k : 0 < k -> at_pos rest d later s ->
  exists b e s' d' later', cs_read k s = (b, e, s') /\ e <> RErr /\ at_pos rest d' later' s' /\
    remaining d later = b ++ remaining d' later' /\
    (e = REOF -> b = [] /\ ceof s' = true) /\ (ceof s' = true -> remaining d' later' = []) /\
    length later' <= length later.
Proof.
  intros Hk H. destruct H as [|later F|d later Nd Ld F].
  - (* already at the end *)
    exists [], REOF, {| cleft := 0; ceof := true; cwire := rest |}, [], []. cbn. repeat split; auto; try discriminate; try constructor; try (cbn [length]; lia).
  - (* at a chunk boundary: parse the size line *)
    unfold cs_read. cbn [ceof cleft cwire]. change (N.eqb 0 0) with true. cbv iota.
    destruct later as [|c cs].
    + rewrite enchunk_nil. rewrite parse_write_chunk_size by (vm_compute; reflexivity).
      change (N.eqb 0 0) with true. cbv iota. rewrite skip_trailer_empty.
      exists [], REOF, {| cleft := 0; ceof := true; cwire := rest |}, [], [].
      repeat split; auto; try discriminate; try constructor; try (cbn [length]; lia).
    + inversion F as [|? ? [Nc Lc] Fcs]; subst.
      rewrite enchunk_cons. rewrite parse_write_chunk_size by exact Lc.
      assert (Z0 : N.eqb (N.of_nat (length c)) 0 = false) by (destruct c; [congruence|reflexivity]).
      rewrite Z0.
      (* the same as reading inside the chunk c *)
      set (n := N.of_nat (length c)) in *.
      set (want := if N.ltb (N.of_nat k) n then k else N.to_nat n).
      assert (Wl : want <= length c /\ 0 < want).
      { unfold want, n. destruct (N.ltb (N.of_nat k) (N.of_nat (length c))) eqn:E; [apply N.ltb_lt in E|apply N.ltb_ge in E]; split; try lia.
        all: try (destruct c; [congruence|cbn [length]; lia]). }
      destruct Wl as [Wl Wp].
      assert (Fg : firstn want (c ++ CRLF ++ enchunk cs ++ CRLF ++ rest) = firstn want c).
      { rewrite firstn_app. replace (want - length c) with 0 by lia. cbn [firstn]. apply app_nil_r. }
      assert (Sg : skipn want (c ++ CRLF ++ enchunk cs ++ CRLF ++ rest) = skipn want c ++ CRLF ++ enchunk cs ++ CRLF ++ rest).
      { rewrite skipn_app. replace (want - length c) with 0 by lia. reflexivity. }
      fold want. rewrite Fg, Sg.
      assert (Lg : length (firstn want c) = want) by (rewrite firstn_length; lia).
      rewrite Lg. rewrite Nat.ltb_irrefl.
      destruct (N.eqb (n - N.of_nat want) 0) eqn:E0.
      * (* the whole chunk *)
        apply N.eqb_eq in E0. assert (want = length c) by (unfold n in E0; lia). 
        replace (skipn want c) with (@nil byte) by (rewrite H, skipn_all; reflexivity).
        cbn [app]. rewrite take_crlf_app.
        exists (firstn want c), RNil, {| cleft := 0; ceof := false; cwire := enchunk cs ++ CRLF ++ rest |}, [], cs.
        repeat split; auto; try discriminate; try (cbn [length]; lia).
        -- constructor. exact Fcs.
        -- unfold remaining. cbn [app concat]. rewrite H, firstn_all. reflexivity.
      * apply N.eqb_neq in E0.
        assert (Hlt : want < length c) by (unfold n in E0; lia).
        exists (firstn want c), RNil,
          {| cleft := n - N.of_nat want; ceof := false; cwire := skipn want c ++ CRLF ++ enchunk cs ++ CRLF ++ rest |},
          (skipn want c), cs.
        repeat split; auto; try discriminate; try (cbn [length]; lia).
        -- assert (El : (n - N.of_nat want)%N = N.of_nat (length (skipn want c))) by (rewrite skipn_length; unfold n; lia).
           rewrite El. constructor; auto.
           ++ intros E. apply (f_equal (@length byte)) in E. rewrite skipn_length in E. cbn in E. lia.
           ++ rewrite skipn_length. lia.
        -- unfold remaining. cbn [app concat]. rewrite app_assoc, firstn_skipn. reflexivity.
  - (* inside a chunk *)
    unfold cs_read. cbn [ceof cleft cwire].
    assert (Z0 : N.eqb (N.of_nat (length d)) 0 = false) by (destruct d; [congruence|reflexivity]).
    rewrite Z0. cbv iota. rewrite Z0.
    set (n := N.of_nat (length d)) in *.
    set (want := if N.ltb (N.of_nat k) n then k else N.to_nat n).
    assert (Wl : want <= length d /\ 0 < want).
    { unfold want, n. destruct (N.ltb (N.of_nat k) (N.of_nat (length d))) eqn:E; [apply N.ltb_lt in E|apply N.ltb_ge in E]; split; try lia.
      all: try (destruct d; [congruence|cbn [length]; lia]). }
    destruct Wl as [Wl Wp].
    assert (Fg : firstn want (d ++ CRLF ++ enchunk later ++ CRLF ++ rest) = firstn want d).
    { rewrite firstn_app. replace (want - length d) with 0 by lia. cbn [firstn]. apply app_nil_r. }
    assert (Sg : skipn want (d ++ CRLF ++ enchunk later ++ CRLF ++ rest) = skipn want d ++ CRLF ++ enchunk later ++ CRLF ++ rest).
    { rewrite skipn_app. replace (want - length d) with 0 by lia. reflexivity. }
    rewrite Fg, Sg.
    assert (Lg : length (firstn want d) = want) by (rewrite firstn_length; lia).
    rewrite Lg. rewrite Nat.ltb_irrefl.
    destruct (N.eqb (n - N.of_nat want) 0) eqn:E0.
    + apply N.eqb_eq in E0. assert (want = length d) by (unfold n in E0; lia).
      replace (skipn want d) with (@nil byte) by (rewrite H, skipn_all; reflexivity).
      cbn [app]. rewrite take_crlf_app.
      exists (firstn want d), RNil, {| cleft := 0; ceof := false; cwire := enchunk later ++ CRLF ++ rest |}, [], later.
      repeat split; auto; try discriminate; try (cbn [length]; lia).
      * constructor. exact F.
      * unfold remaining. cbn [app]. rewrite H, firstn_all. reflexivity.
    + apply N.eqb_neq in E0.
      assert (Hlt : want < length d) by (unfold n in E0; lia).
      exists (firstn want d), RNil,
        {| cleft := n - N.of_nat want; ceof := false; cwire := skipn want d ++ CRLF ++ enchunk later ++ CRLF ++ rest |},
        (skipn want d), later.
      repeat split; auto; try discriminate; try (cbn [length]; lia).
      * assert (El : (n - N.of_nat want)%N = N.of_nat (length (skipn want d))) by (rewrite skipn_length; unfold n; lia).
        rewrite El. constructor; auto.
        -- intros E. apply (f_equal (@length byte)) in E. rewrite skipn_length in E. cbn in E. lia.
        -- rewrite skipn_length. lia.
      * unfold remaining. rewrite app_assoc, firstn_skipn. reflexivity.
Qed.

(* any consumption program: the bytes read so far followed by what is left are the body; EOF only at the end *)
Theorem crun_correct rest : forall prog s d later b eof s',
  at_pos rest d later s -> crun_reads prog s = (b, eof, s') ->
  exists d' later', at_pos rest d' later' s' /\ remaining d later = b ++ remaining d' later' /\
    (eof = true -> remaining d' later' = []) /\ length later' <= length later.
Proof.
  induction prog as [|k prog IH]; intros s d later b eof s' H R; cbn [crun_reads] in R.
  - inversion R; subst. exists d, later. repeat split; auto. discriminate.
  - destruct k as [|k]; [eapply IH; eauto|].
    destruct (read_step rest d later s (S k) ltac:(lia) H) as (b1 & e & s1 & d1 & l1 & E & Ne & H1 & Rm & Eo & Ce & Ln).
    rewrite E in R. destruct e; [|inversion R; subst|contradiction].
    + destruct (crun_reads prog s1) as [[b2 eof2] s2] eqn:R2. inversion R; subst.
      destruct (IH s1 d1 l1 b2 eof s' H1 R2) as (d2 & l2 & H2 & Rm2 & Eo2 & Ln2).
      exists d2, l2. repeat split; auto; [rewrite Rm, Rm2, app_assoc; reflexivity|lia].
    + exists d1, l1. repeat split; auto. intros _. apply Ce. apply Eo. reflexivity.
Qed.

(* skipRest: wherever the handler stopped, the rest of the message is discarded exactly *)
Theorem cskip_correct rest : forall later d s fuel,
  at_pos rest d later s -> length later + 2 <= fuel ->
  exists s'', cskip_rest fuel s = Some s'' /\ cwire s'' = rest /\ ceof s'' = true.
Proof.
  assert (B : forall later fuel, Forall chunk_ok later -> length later + 1 <= fuel ->
            exists s'', cskip_rest fuel {| cleft := 0; ceof := false; cwire := enchunk later ++ CRLF ++ rest |} = Some s''
                        /\ cwire s'' = rest /\ ceof s'' = true).
  { induction later as [|c cs IH]; intros fuel F L; (destruct fuel as [|fuel]; [cbn in L; lia|]); cbn [cskip_rest ceof cleft cwire].
    - change (N.eqb 0 0) with true. cbv iota. rewrite enchunk_nil, parse_write_chunk_size by (vm_compute; reflexivity).
      change (N.eqb 0 0) with true. cbv iota. rewrite skip_trailer_empty. eexists. repeat split; reflexivity.
    - change (N.eqb 0 0) with true. cbv iota. inversion F as [|? ? [Nc Lc] Fcs]; subst.
      rewrite enchunk_cons, parse_write_chunk_size by exact Lc.
      assert (Z0 : N.eqb (N.of_nat (length c)) 0 = false) by (destruct c; [congruence|reflexivity]). rewrite Z0.
      assert (Lw : N.ltb (N.of_nat (length (c ++ CRLF ++ enchunk cs ++ CRLF ++ rest))) (N.of_nat (length c)) = false).
      { apply N.ltb_ge. rewrite app_length. lia. }
      rewrite Lw. rewrite Nat2N.id.
      assert (Sk : skipn (length c) (c ++ CRLF ++ enchunk cs ++ CRLF ++ rest) = CRLF ++ enchunk cs ++ CRLF ++ rest).
      { rewrite skipn_app, skipn_all, Nat.sub_diag. reflexivity. }
      rewrite Sk, take_crlf_app. apply IH; auto. cbn [length] in L. lia. }
  intros later d s fuel H L. destruct H as [|later F|d later Nd Ld F].
  - destruct fuel as [|fuel]; [lia|]. cbn. eexists. repeat split; reflexivity.
  - apply B; auto. lia.
  - destruct fuel as [|fuel]; [lia|]. cbn [cskip_rest ceof cleft cwire].
    assert (Z0 : N.eqb (N.of_nat (length d)) 0 = false) by (destruct d; [congruence|reflexivity]). rewrite Z0. cbv iota. rewrite Z0.
    assert (Lw : N.ltb (N.of_nat (length (d ++ CRLF ++ enchunk later ++ CRLF ++ rest))) (N.of_nat (length d)) = false).
    { apply N.ltb_ge. rewrite app_length. lia. }
    rewrite Lw, Nat2N.id.
    assert (Sk : skipn (length d) (d ++ CRLF ++ enchunk later ++ CRLF ++ rest) = CRLF ++ enchunk later ++ CRLF ++ rest).
    { rewrite skipn_app, skipn_all, Nat.sub_diag. reflexivity. }
    rewrite Sk, take_crlf_app. apply B; auto. lia.
Qed.

(* the statement for a whole message *)
Theorem chunked_stream_correct cs rest prog b eof s' :
  Forall chunk_ok cs ->
  crun_reads prog (cfresh (enchunk cs ++ CRLF ++ rest)) = (b, eof, s') ->
  (exists tail, concat cs = b ++ tail /\ (eof = true -> tail = [])) /\
  exists s'', cskip_rest (length cs + 2) s' = Some s'' /\ cwire s'' = rest.
Proof.
  intros F R.
  destruct (crun_correct rest prog _ [] cs b eof s' (AtBoundary rest cs F) R) as (d' & l' & H & Rm & Eo & Ln).
  split.
  - exists (remaining d' l'). split; [exact Rm|exact Eo].
  - destruct (cskip_correct rest l' d' s' (length cs + 2) H ltac:(lia)) as (s'' & E & W & _). eauto.
Qed.
