(* C19 proofs: tracer calls pair up, brackets, stage lists — for every script of outcomes. *)
From Coq Require Import String.
From Coq Require Import List Strings.Byte NArith Bool Arith Lia.
Require Import Bytes Show Serve.
Import ListNotations.

(* stage list of one start/finish pair: HS, then the pipeline stages in order, each started stage
   immediately finished, cut at any stage boundary, then HF *)
Definition stages_ok (l : list stage) : bool :=
  match l with
  | [HS; RHS; RHF; HF] => true
  | [HS; RHS; RHF; RBS; RBF; HF] => true
  | [HS; RHS; RHF; RBS; RBF; SHS; SHF; HF] => true
  | [HS; RHS; RHF; RBS; RBF; SHS; SHF; WS; WF; HF] => true
  | _ => false
  end.
Definition handled_stages (l : list stage) : bool :=
  existsb (fun e => match e with SHS => true | _ => false end) l.

(* recogniser of well-formed call logs *)
Inductive cstate := Closed | Open (h : option nat).

Definition opt_nat_eqb (a b : option nat) : bool :=
  match a, b with Some x, Some y => x =? y | None, None => true | _, _ => false end.

Definition cstep (q : cstate) (e : ev) : option cstate :=
  match q, e with
  | Closed, TStart => Some (Open None)
  | Open None, Handled i => Some (Open (Some i))
  | Open h, TFinish r sts =>
      if stages_ok sts
         && match h with
            | None => negb (handled_stages sts)
            | Some _ => opt_nat_eqb r h && handled_stages sts   (* the finish carries that request *)
            end
      then Some Closed else None
  | _, _ => None
  end.

Fixpoint crun (q : cstate) (l : list ev) : option cstate :=
  match l with
  | [] => Some q
  | e :: r => match cstep q e with Some q' => crun q' r | None => None end
  end.

Lemma crun_app q a b : crun q (a ++ b) = match crun q a with Some q' => crun q' b | None => None end.
Proof.
  revert q; induction a as [|e a IH]; intros q; simpl; auto.
  destruct (cstep q e); auto.
Qed.

(* state between two iterations *)
Definition quiescent (s : st) : Prop :=
  started s = false /\ stack s = [] /\ rec s = [] /\ cur s = None /\ crun Closed (out s) = Some Closed.

Lemma iteration_ok i o s : quiescent s ->
  match iteration i o s with
  | Continue s' => quiescent s'
  | Return s' => crun Closed (out (epilogue s')) = Some Closed
  end.
Proof.
  intros (H1 & H2 & H3 & H4 & H5). destruct s as [st0 sk rc cu ou]. simpl in *. subst.
  destruct o; cbv [iteration do_start do_finish record push pop emit set_cur reset_ctx epilogue pop_all
                   started stack rec cur out]; simpl.
  - (* OKeep *) unfold quiescent; simpl. repeat split; auto.
    rewrite <- ?app_assoc. rewrite !crun_app, H5. simpl. rewrite Nat.eqb_refl. reflexivity.
  - rewrite <- ?app_assoc. rewrite !crun_app, H5. simpl. rewrite Nat.eqb_refl. reflexivity.
  - rewrite <- ?app_assoc. rewrite !crun_app, H5. simpl. reflexivity.
  - rewrite <- ?app_assoc. rewrite !crun_app, H5. simpl. reflexivity.
  - rewrite <- ?app_assoc. rewrite !crun_app, H5. simpl. rewrite Nat.eqb_refl. reflexivity.
  - rewrite <- ?app_assoc. rewrite !crun_app, H5. simpl. rewrite Nat.eqb_refl. reflexivity.
Qed.

Lemma serve_from_ok : forall script i s, quiescent s ->
  crun Closed (out (serve_from i script s)) = Some Closed.
Proof.
  induction script as [|o rest IH]; intros i s Q.
  - cbn [serve_from]. destruct Q as (H1 & H2 & H3 & H4 & H5). destruct s as [st0 sk rc cu ou]. simpl in *. subst.
    destruct (i =? 1).
    + cbv [do_start do_finish record push pop emit epilogue pop_all started stack rec cur out]; simpl.
      rewrite <- ?app_assoc. rewrite !crun_app, H5. reflexivity.
    + cbv [epilogue pop_all started stack rec cur out length]. simpl. exact H5.
  - cbn [serve_from]. pose proof (iteration_ok i o s Q) as H.
    destruct (iteration i o s) as [s'|s']; auto.
Qed.

Theorem serve_wellformed : forall script, crun Closed (serve script) = Some Closed.
Proof.
  intros script. unfold serve. apply serve_from_ok.
  unfold quiescent, init; simpl. repeat split; reflexivity.
Qed.
