(* C19 proofs: tracer calls pair up, brackets, stage lists — for every script of outcomes. *)
From Coq Require Import String.
From Coq Require Import List Strings.Byte NArith Bool Arith Lia.
Require Import Bytes Show Serve.
Import ListNotations.

(* stage list of one start/finish pair: HS, then the pipeline stages in order, each started stage
   immediately finished, cut at any stage boundary, then HF *)
Definition stages_ok (l : list stage) : bool :=
  match l with
  | [HS; RHS; RHF; HF] => true
  | [HS; RHS; RHF; RBS; RBF; HF] => true
  | [HS; RHS; RHF; RBS; RBF; SHS; SHF; HF] => true
  | [HS; RHS; RHF; RBS; RBF; SHS; SHF; WS; WF; HF] => true
  | _ => false
  end.
Definition handled_stages (l : list stage) : bool :=
  existsb (fun e => match e with SHS => true | _ => false end) l.

(* recogniser of well-formed call logs *)
Inductive cstate := Closed | Open (h : option nat).

Definition opt_nat_eqb (a b : option nat) : bool :=
  match a, b with Some x, Some y => x =? y | None, None => true | _, _ => false end.

Definition cstep (q : cstate) (e : ev) : option cstate :=
  match q, e with
  | Closed, TStart => Some (Open None)
  | Open None, Handled i => Some (Open (Some i))
  | Open h, TFinish r sts _ =>
      if stages_ok sts
         && match h with
            | None => negb (handled_stages sts)
            | Some _ => opt_nat_eqb r h && handled_stages sts   (* the finish carries that request *)
            end
      then Some Closed else None
  | _, _ => None
  end.

Fixpoint crun (q : cstate) (l : list ev) : option cstate :=
  match l with
  | [] => Some q
  | e :: r => match cstep q e with Some q' => crun q' r | None => None end
  end.

Lemma crun_app q a b : crun q (a ++ b) = match crun q a with Some q' => crun q' b | None => None end.
Proof.
  revert q; induction a as [|e a IH]; intros q; simpl; auto.
  destruct (cstep q e); auto.
Qed.

(* state between two iterations *)
Definition quiescent (s : st) : Prop :=
  started s = false /\ stack s = [] /\ rec s = [] /\ cur s = None /\ crun Closed (out s) = Some Closed.

Lemma iteration_ok i o s : quiescent s ->
  match iteration i o s with
  | Continue s' => quiescent s'
  | Return s' e => crun Closed (out (epilogue s' e)) = Some Closed
  end.
Proof.
  intros (H1 & H2 & H3 & H4 & H5). destruct s as [st0 sk rc cu se ou]. simpl in *. subst.
  destruct o; cbv [iteration do_start do_finish record push pop emit set_cur reset_ctx epilogue pop_all
                   started stack rec cur serr out]; simpl.
  - (* OKeep *) unfold quiescent; simpl. repeat split; auto.
    rewrite <- ?app_assoc. rewrite !crun_app, H5. simpl. rewrite Nat.eqb_refl. reflexivity.
  - rewrite <- ?app_assoc. rewrite !crun_app, H5. simpl. rewrite Nat.eqb_refl. reflexivity.
  - rewrite <- ?app_assoc. rewrite !crun_app, H5. simpl. reflexivity.
  - rewrite <- ?app_assoc. rewrite !crun_app, H5. simpl. reflexivity.
  - rewrite <- ?app_assoc. rewrite !crun_app, H5. simpl. rewrite Nat.eqb_refl. reflexivity.
  - rewrite <- ?app_assoc. rewrite !crun_app, H5. simpl. rewrite Nat.eqb_refl. reflexivity.
Qed.

Lemma serve_from_ok : forall tmo script i s, quiescent s ->
  crun Closed (out (serve_from tmo i script s)) = Some Closed.
Proof.
  intros tmo. induction script as [|o rest IH]; intros i s Q.
  - cbn [serve_from]. destruct Q as (H1 & H2 & H3 & H4 & H5). destruct s as [st0 sk rc cu se ou]. simpl in *. subst.
    destruct (i =? 1).
    + cbv [do_start do_finish record push pop emit epilogue pop_all started stack rec cur serr out]; simpl.
      rewrite <- ?app_assoc. rewrite !crun_app, H5. reflexivity.
    + cbv [epilogue pop_all started stack rec cur serr out length]. simpl. exact H5.
  - cbn [serve_from]. pose proof (iteration_ok i o s Q) as H.
    destruct (iteration i o s) as [s'|s' e]; auto.
Qed.

Theorem serve_wellformed : forall tmo script, crun Closed (serve tmo script) = Some Closed.
Proof.
  intros tmo script. unfold serve. apply serve_from_ok.
  unfold quiescent, init; simpl. repeat split; reflexivity.
Qed.

(* ---------- the error a finish carries is the error of its own exchange ---------- *)
(* the recordable failures: malformed head, body error, write error (hijack and Connection: close end the
   connection with errors that are not recorded) *)
Definition fails (o : outcome) : bool :=
  match o with OMalformed | OBodyErr | OWriteErr => true | _ => false end.
Definition continues (o : outcome) : bool := match o with OKeep => true | _ => false end.

(* what the finishes of a connection must report: one flag per request reached, each its own outcome; a
   connection on which nothing arrives has one finish without an error *)
Fixpoint own_errors (tmo : bool) (i : nat) (script : list outcome) : list bool :=
  match script with
  | [] => if i =? 1 then [tmo] else []      (* the request that never came: a read timeout is its error, EOF is none *)
  | o :: rest => fails o :: (if continues o then own_errors tmo (S i) rest else [])
  end.

Fixpoint finish_errors (l : list ev) : list bool :=
  match l with
  | [] => []
  | TFinish _ _ e :: r => e :: finish_errors r
  | _ :: r => finish_errors r
  end.

Lemma finish_errors_app a b : finish_errors (a ++ b) = finish_errors a ++ finish_errors b.
Proof. induction a as [|e a IH]; simpl; auto. destruct e; simpl; rewrite ?IH; reflexivity. Qed.

Definition clean_between (s : st) : Prop :=
  started s = false /\ stack s = [] /\ serr s = false.

Lemma serve_from_errors : forall tmo script i s, clean_between s ->
  finish_errors (out (serve_from tmo i script s)) = finish_errors (out s) ++ own_errors tmo i script.
Proof.
  intros tmo. induction script as [|o rest IH]; intros i s (H1 & H2 & H3); destruct s as [st0 sk rc cu se ou]; simpl in *; subst.
  - cbn [serve_from own_errors]. destruct (i =? 1).
    + cbv [do_start do_finish record push pop emit epilogue pop_all started stack rec cur serr out length]; simpl.
      rewrite !finish_errors_app. simpl. rewrite ?app_nil_r. reflexivity.
    + cbv [epilogue pop_all started stack rec cur serr out length]. simpl. rewrite app_nil_r. reflexivity.
  - cbn [serve_from own_errors]. destruct o.
    + (* OKeep: the loop goes on from a clean state *)
      cbv beta iota zeta delta [iteration].
      rewrite IH; [|unfold clean_between; cbv [reset_ctx do_finish do_start record push pop emit set_cur started stack serr]; simpl; repeat split; reflexivity].
      cbv [do_start do_finish record push pop emit set_cur reset_ctx started stack rec cur serr out fails continues]; simpl.
      rewrite !finish_errors_app. simpl. rewrite ?app_nil_r, <- ?app_assoc. reflexivity.
    + cbv [iteration do_start do_finish record push pop emit set_cur reset_ctx epilogue pop_all
           started stack rec cur serr out length fails continues]; simpl.
      rewrite !finish_errors_app; simpl; rewrite ?app_nil_r; reflexivity.
    + cbv [iteration do_start do_finish record push pop emit set_cur reset_ctx epilogue pop_all
           started stack rec cur serr out length fails continues]; simpl.
      rewrite !finish_errors_app; simpl; rewrite ?app_nil_r; reflexivity.
    + cbv [iteration do_start do_finish record push pop emit set_cur reset_ctx epilogue pop_all
           started stack rec cur serr out length fails continues]; simpl.
      rewrite !finish_errors_app; simpl; rewrite ?app_nil_r; reflexivity.
    + cbv [iteration do_start do_finish record push pop emit set_cur reset_ctx epilogue pop_all
           started stack rec cur serr out length fails continues]; simpl.
      rewrite !finish_errors_app; simpl; rewrite ?app_nil_r; reflexivity.
    + cbv [iteration do_start do_finish record push pop emit set_cur reset_ctx epilogue pop_all
           started stack rec cur serr out length fails continues]; simpl.
      rewrite !finish_errors_app; simpl; rewrite ?app_nil_r; reflexivity.
Qed.

Theorem finish_error_is_own : forall tmo script, finish_errors (serve tmo script) = own_errors tmo 1 script.
Proof.
  intros tmo script. unfold serve. rewrite serve_from_errors; [reflexivity|].
  unfold clean_between, init; simpl. repeat split; reflexivity.
Qed.
