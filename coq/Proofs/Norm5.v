From Coq Require Import String.
From Coq Require Import List Strings.Byte NArith Lia Bool Arith.
Require Import Bytes Show Tables Codec Norm Seg Norm2 Norm3 Norm4.
Import ListNotations.


(* ---- "no non-last segment equals Y" as a quantified statement ---- *)
Definition nonlast_free (Y : bs) (l : list bs) : Prop :=
  forall p g q, l = p ++ g :: q -> q <> [] -> g <> Y.

Lemma fnl_none_iff Y l : first_nonlast Y l = None <-> nonlast_free Y l.
Proof.
  split.
  - intros H p g q E Q. eapply first_nonlast_none; eauto.
  - induction l as [|g0 l IH]; intros H; simpl; auto.
    destruct (bs_eqb g0 Y && negb (match l with [] => true | _ => false end)) eqn:E.
    + exfalso. apply andb_true_iff in E as [E1 E2]. apply bs_eqb_eq in E1.
      apply (H [] g0 l); auto. destruct l; [discriminate|discriminate].
    + rewrite IH; auto. intros p g q E' Q. apply (H (g0 :: p) g q); auto. simpl. congruence.
Qed.

Lemma app_split_left {A} (u w p : list A) g q :
  u ++ w = p ++ g :: q -> length p + 1 <= length u -> exists q1, u = p ++ g :: q1 /\ q = q1 ++ w.
Proof.
  revert u; induction p as [|x p IH]; intros u E L; simpl in *.
  - destruct u as [|y u]; simpl in *; [lia|]. inversion E; subst. exists u. auto.
  - destruct u as [|y u]; simpl in *; [lia|]. inversion E; subst.
    destruct (IH u H1) as (q1 & A1 & B1); [lia|]. exists q1. split; congruence.
Qed.
Lemma app_split_right {A} (u w p : list A) g q :
  u ++ w = p ++ g :: q -> length u < length p + 1 -> exists p2, p = u ++ p2 /\ w = p2 ++ g :: q.
Proof.
  revert p; induction u as [|y u IH]; intros p E L; simpl in *.
  - exists p. auto.
  - destruct p as [|x p]; simpl in *; [lia|]. inversion E; subst.
    destruct (IH p H1) as (p2 & A1 & B1); [lia|]. exists p2. split; congruence.
Qed.

(* removing a block that ends before the last element preserves nonlast_free *)
Lemma nonlast_free_cut Y (l : list bs) a b :
  a <= b -> b < length l -> nonlast_free Y l -> nonlast_free Y (firstn a l ++ skipn b l).
Proof.
  intros Hab Hb H p g q E Q.
  assert (Hl : l = firstn a l ++ (firstn (b - a) (skipn a l)) ++ skipn b l).
  { rewrite <- (firstn_skipn a l) at 1. f_equal. rewrite <- (firstn_skipn (b - a) (skipn a l)) at 1. f_equal.
    rewrite <- skipn_add. f_equal. lia. }
  destruct (le_lt_dec (length p + 1) (length (firstn a l))) as [Hin|Hout].
  - destruct (app_split_left _ _ _ _ _ E Hin) as (q1 & E1 & E2).
    apply (H p g (q1 ++ firstn (b - a) (skipn a l) ++ skipn b l)).
    + rewrite Hl at 1. rewrite E1, <- app_assoc. reflexivity.
    + intros X. apply app_eq_nil in X as [_ X]. apply app_eq_nil in X as [_ X].
      assert (length (skipn b l) = length l - b) by apply skipn_length. rewrite X in H0. simpl in H0. lia.
  - destruct (app_split_right _ _ _ _ _ E Hout) as (p2 & E1 & E2).
    apply (H (firstn a l ++ firstn (b - a) (skipn a l) ++ p2) g q); auto.
    rewrite Hl at 1. rewrite E2, <- !app_assoc. reflexivity.
Qed.

Lemma skipn_cons_lt {A} i (l : list A) x r : skipn i l = x :: r -> r <> [] -> S i < length l.
Proof.
  intros H Hr. assert (E : length (skipn i l) = length l - i) by apply skipn_length.
  rewrite H in E. simpl in E. destruct r; [congruence|]. simpl in E. lia.
Qed.

(* a chain of such cuts: the relation the loops realise *)
Inductive cuts : list bs -> list bs -> Prop :=
| cuts_refl l : cuts l l
| cuts_step l a b l' : a <= b -> b < length l -> cuts (firstn a l ++ skipn b l) l' -> cuts l l'.

Lemma cuts_free Y l l' : cuts l l' -> nonlast_free Y l -> nonlast_free Y l'.
Proof. induction 1; auto. intros F. apply IHcuts. apply nonlast_free_cut; auto. Qed.

Lemma cuts_nonnil l l' : cuts l l' -> l <> [] -> l' <> [].
Proof.
  induction 1; auto. intros Hl. apply IHcuts. intros E. apply app_eq_nil in E as [_ E].
  assert (X : length (skipn b l) = length l - b) by apply skipn_length. rewrite E in X. simpl in X. lia.
Qed.

(* loops 2 and 3 realise `cuts` (re-proved with the relation exposed) *)
Theorem loop2_cuts : forall fuel gs, Forall nosl gs -> length gs < fuel ->
  exists gs', loop2 fuel (render gs) = Some (render gs') /\ Forall nosl gs' /\
              first_nonlast [x2e] gs' = None /\ cuts gs gs'.
Proof.
  induction fuel as [|f IH]; intros gs F L; [lia|]. cbn [loop2].
  unfold pSDS. rewrite (find_sub_render [x2e] gs nosl_dot F).
  destruct (first_nonlast [x2e] gs) as [i|] eqn:E; cbn [option_map].
  - destruct (first_nonlast_some _ _ _ E) as (rest & Hs & Hne).
    pose proof (cut_seg [x2e] gs i rest Hs) as C. simpl in C. rewrite C.
    pose proof (drop_at_length _ _ _ _ Hs) as DL.
    destruct (IH (drop_at i gs)) as (gs' & A & B & N & Cu).
    + apply drop_at_Forall. exact F.
    + lia.
    + exists gs'. repeat split; auto.
      eapply (cuts_step gs i (S i)); [lia | apply (skipn_cons_lt _ _ _ _ Hs Hne) | exact Cu].
  - exists gs. repeat split; auto. constructor.
Qed.

Theorem loop3_cuts : forall fuel gs, Forall nosl gs -> length gs < fuel ->
  exists gs', loop3 fuel (render gs) = Some (render gs') /\ Forall nosl gs' /\
              first_nonlast dd gs' = None /\ cuts gs gs'.
Proof.
  induction fuel as [|f IH]; intros gs F L; [lia|]. cbn [loop3].
  unfold pSDDS. rewrite (find_sub_render dd gs nosl_dd F).
  destruct (first_nonlast dd gs) as [i|] eqn:E; cbn [option_map].
  - destruct (first_nonlast_some _ _ _ E) as (rest & Hs & Hne).
    rewrite (cut_pair gs i rest F Hs).
    pose proof (drop_pair_length _ _ _ _ Hs) as DL.
    destruct (IH (drop_pair i gs)) as (gs' & A & B & N & Cu).
    + unfold drop_pair. apply Forall_app. split; [apply Forall_firstn | apply Forall_skipn]; auto.
    + lia.
    + exists gs'. repeat split; auto.
      eapply (cuts_step gs (i - 1) (S i)); [lia | apply (skipn_cons_lt _ _ _ _ Hs Hne) | exact Cu].
  - exists gs. repeat split; auto. constructor.
Qed.
Print Assumptions loop3_cuts.
