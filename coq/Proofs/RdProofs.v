(* C13 / C02 proofs about the reader spec: lossless FIFO over every operation sequence and every
   source script, and independence of error-free results from the fragmentation. *)
From Coq Require Import String.
From Coq Require Import List Strings.Byte NArith Bool Arith Lia.
Require Import Bytes Show Rd.
Import ListNotations.

(* the bytes still to come: buffered ones, then everything the source will deliver *)
Definition stream (r : rd) : bs := buf r ++ concat (map rbytes (src r)).

Lemma fill_stream : forall f i r, stream (fst (fill f i r)) = stream r.
Proof.
  induction f as [|f IH]; intros i r; cbn [fill]; [reflexivity|].
  destruct (i <=? length (buf r)); [reflexivity|].
  destruct (stored r).
  { destruct (buf r) eqn:B; [|reflexivity]. unfold stream; simpl. rewrite B. reflexivity. }
  destruct (src r) as [|x rest] eqn:S; [reflexivity|].
  destruct (rbytes x) as [|c bsx] eqn:X.
  - unfold stream; simpl. rewrite S. simpl. rewrite X. reflexivity.
  - destruct (rerr x).
    + unfold stream; simpl. rewrite S. simpl. rewrite X, <- app_assoc. reflexivity.
    + rewrite IH. unfold stream; simpl. rewrite S. simpl. rewrite X, <- app_assoc. reflexivity.
Qed.

Lemma fill_buf_prefix : forall f i r, exists t, buf (fst (fill f i r)) ++ t = stream r.
Proof.
  intros f i r. rewrite <- (fill_stream f i r). unfold stream. eauto.
Qed.

Lemma fill_false : forall f i r r1, fill f i r = (r1, false) -> i <= length (buf r1) \/ stored r1 = true.
Proof.
  induction f as [|f IH]; intros i r r1 H; cbn [fill] in H; [discriminate|].
  destruct (i <=? length (buf r)) eqn:E.
  { inversion H; subst. left. apply Nat.leb_le. exact E. }
  destruct (stored r) eqn:St.
  { destruct (buf r); [discriminate|]. inversion H; subst. right. exact St. }
  destruct (src r) as [|x rest]; [discriminate|].
  destruct (rbytes x) as [|c bsx]; [discriminate|].
  destruct (rerr x) eqn:Ex.
  - inversion H; subst. right. reflexivity.
  - apply IH in H. exact H.
Qed.

(* Peek never alters the stream and returns a prefix of it *)
Theorem peek_prefix : forall i r, let '(b, e, r') := peek i r in
  stream r' = stream r /\ exists t, stream r = b ++ t.
Proof.
  intros i r. unfold peek. destruct (fill (fill_fuel r) i r) as [r1 e] eqn:F.
  assert (S1 : stream r1 = stream r) by (rewrite <- (fill_stream (fill_fuel r) i r), F; reflexivity).
  destruct e.
  - split; auto. exists (stream r). reflexivity.
  - destruct (length (buf r1) <? i).
    + split; [exact S1|]. rewrite <- S1. unfold stream. eauto.
    + split; [exact S1|]. rewrite <- S1. unfold stream.
      exists (skipn i (buf r1) ++ concat (map rbytes (src r1))).
      rewrite app_assoc, firstn_skipn. reflexivity.
Qed.

Lemma skip_stream n r : let '(e, r') := skip n r in
  if e then r' = r else stream r = firstn n (buf r) ++ stream r' /\ n <= length (buf r).
Proof.
  unfold skip. destruct (length (buf r) <? n) eqn:E; [reflexivity|]. apply Nat.ltb_ge in E.
  split; auto. unfold stream; simpl. rewrite app_assoc, firstn_skipn. reflexivity.
Qed.

(* consumed bytes of an operation *)
Definition run_consume (o : op) (r : rd) : bs * rd :=
  match o with
  | OPeek n => let '(_, _, r') := peek n r in ([], r')
  | OSkip n => let '(e, r') := skip n r in ((if e then [] else firstn n (buf r)), r')
  | OReadByte => let '(o, r') := read_byte r in (match o with Some c => [c] | None => [] end, r')
  | OReadBinary n => let '(o, r') := read_binary n r in (match o with Some b => b | None => [] end, r')
  | OLen | ORelease => ([], r)
  end.
Fixpoint run_consumed (ops : list op) (r : rd) : bs * rd :=
  match ops with
  | [] => ([], r)
  | o :: rest => let '(c, r1) := run_consume o r in let '(c', r2) := run_consumed rest r1 in (c ++ c', r2)
  end.

Lemma consume_stream o r : let '(c, r') := run_consume o r in stream r = c ++ stream r'.
Proof.
  destruct o as [n|n| |n| |]; cbn [run_consume]; try reflexivity.
  - pose proof (peek_prefix n r) as H. destruct (peek n r) as [[b e] r']. destruct H as [H _]. simpl. auto.
  - pose proof (skip_stream n r) as H. destruct (skip n r) as [e r']. destruct e; [subst; reflexivity|].
    destruct H as [H _]. exact H.
  - unfold read_byte. pose proof (peek_prefix 1 r) as H. destruct (peek 1 r) as [[b e] r1] eqn:P.
    destruct H as [S1 [t Ht]]. destruct e; [simpl; auto|].
    destruct b as [|c b']; [simpl; auto|].
    pose proof (skip_stream 1 r1) as K. destruct (skip 1 r1) as [e2 r2] eqn:Sk.
    (* the peeked byte is the head of the buffer *)
    assert (Hb : exists rest, buf r1 = c :: rest).
    { unfold peek in P. destruct (fill (fill_fuel r) 1 r) as [rf ef]. destruct ef; [inversion P|].
      destruct (length (buf rf) <? 1) eqn:L.
      - inversion P; subst. simpl. destruct (buf rf); [discriminate|]. inversion H0; subst. eauto.
      - inversion P; subst. destruct (buf r1); [discriminate|]. simpl in H0. inversion H0; subst. eauto. }
    destruct Hb as [rest Hb]. destruct e2.
    + subst. unfold skip in Sk. rewrite Hb in Sk. simpl in Sk. discriminate.
    + destruct K as [K _]. rewrite Hb in K. simpl in K. rewrite <- S1. exact K.
  - unfold read_binary. pose proof (peek_prefix n r) as H. destruct (peek n r) as [[b e] r1] eqn:P.
    destruct H as [S1 _]. destruct e; [simpl; auto|].
    pose proof (skip_stream n r1) as K. destruct (skip n r1) as [e2 r2] eqn:Sk.
    unfold peek in P. destruct (fill (fill_fuel r) n r) as [rf ef] eqn:F. destruct ef; [inversion P|].
    destruct (length (buf rf) <? n) eqn:L.
    + (* a short peek carries the stored error, so it cannot be error-free *)
      exfalso. inversion P; subst. apply Nat.ltb_lt in L.
      destruct (fill_false _ _ _ _ F) as [K1|K1]; [lia|]. congruence.
    + inversion P; subst. destruct e2.
      * subst. rewrite <- S1. unfold skip in Sk. rewrite L in Sk. discriminate.
      * destruct K as [K _]. rewrite <- S1. exact K.
Qed.

(* Lossless FIFO: over every operation sequence and every source script (any fragmentation, errors
   anywhere), the bytes consumed so far followed by the bytes still to come are exactly the bytes
   of the stream: nothing is lost, duplicated, reordered or altered. *)
Theorem fifo : forall ops r, let '(c, r') := run_consumed ops r in stream r = c ++ stream r'.
Proof.
  induction ops as [|o rest IH]; intros r; cbn [run_consumed]; [reflexivity|].
  pose proof (consume_stream o r) as H. destruct (run_consume o r) as [c r1].
  specialize (IH r1). destruct (run_consumed rest r1) as [c' r2].
  rewrite H, IH, app_assoc. reflexivity.
Qed.

(* ---- error-free sources: results depend on the bytes only, not on the fragmentation ---- *)
Definition clean_src (l : list rres) : Prop := Forall (fun x => rerr x = false /\ rbytes x <> []) l.

Lemma fill_clean : forall f i r, stored r = false -> clean_src (src r) -> length (src r) < f ->
  let '(r1, e) := fill f i r in
  stored r1 = false /\ clean_src (src r1) /\
  (if e then src r1 = [] /\ length (buf r1) < i else i <= length (buf r1)).
Proof.
  induction f as [|f IH]; intros i r St C L; [lia|]. cbn [fill].
  destruct (i <=? length (buf r)) eqn:E.
  { repeat split; auto. apply Nat.leb_le. exact E. }
  apply Nat.leb_gt in E. rewrite St.
  destruct (src r) as [|x rest] eqn:S.
  { split; [exact St|]. split; [rewrite S; constructor|]. split; [exact S | exact E]. }
  inversion C as [|? ? [Hx1 Hx2] Crest]; subst.
  destruct (rbytes x) as [|c bsx] eqn:X; [congruence|]. rewrite Hx1.
  apply IH; simpl; auto. simpl in L. lia.
Qed.

Theorem peek_clean : forall i r, stored r = false -> clean_src (src r) ->
  fst (peek i r) = if i <=? length (stream r) then (firstn i (stream r), false) else ([], true).
Proof.
  intros i r St C. unfold peek.
  pose proof (fill_clean (fill_fuel r) i r St C ltac:(unfold fill_fuel; lia)) as H.
  pose proof (fill_stream (fill_fuel r) i r) as S1.
  destruct (fill (fill_fuel r) i r) as [r1 e]. destruct H as (St1 & C1 & H). simpl in S1.
  destruct e.
  - destruct H as [Hs Hl]. simpl.
    assert (length (stream r) < i). { rewrite <- S1. unfold stream. rewrite Hs. simpl. rewrite app_nil_r. exact Hl. }
    destruct (i <=? length (stream r)) eqn:E; [apply Nat.leb_le in E; lia|reflexivity].
  - assert (L : (length (buf r1) <? i) = false) by (apply Nat.ltb_ge; exact H). rewrite L. simpl.
    assert (i <= length (stream r)). { rewrite <- S1. unfold stream. rewrite app_length. lia. }
    assert (E : (i <=? length (stream r)) = true) by (apply Nat.leb_le; lia). rewrite E.
    rewrite <- S1. unfold stream. rewrite firstn_app.
    replace (i - length (buf r1)) with 0 by lia. simpl. rewrite app_nil_r. reflexivity.
Qed.

(* two readers holding the same remaining bytes, however fragmented, answer a Peek alike *)
Corollary peek_sched_indep : forall i r1 r2,
  stored r1 = false -> stored r2 = false -> clean_src (src r1) -> clean_src (src r2) ->
  stream r1 = stream r2 -> fst (peek i r1) = fst (peek i r2).
Proof.
  intros i r1 r2 S1 S2 C1 C2 E. rewrite (peek_clean i r1 S1 C1), (peek_clean i r2 S2 C2), E. reflexivity.
Qed.
