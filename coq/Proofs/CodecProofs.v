(* C17 proofs: quoting codec and argument scanner round-trips, over the GENERATED tables. *)
From Coq Require Import String.
From Coq Require Import List Strings.Byte NArith Lia Bool Arith.
Require Import Bytes Show Tables Codec.
Import ListNotations.

(* ---- byte sweeps ---- *)
Lemma quote1_dec : forall c rest, dec true (quote1 c ++ rest) = c :: dec true rest.
Proof.
  intros c rest.
  assert (H: (if Byte.eqb c cSp then true
              else if esc_arg c then
                negb (N.eqb (hex2int (upperhex (N.shiftr (n_of c) 4))) 16) &&
                negb (N.eqb (hex2int (upperhex (N.land (n_of c) 15))) 16) &&
                Byte.eqb (b_of (N.lor (N.shiftl (hex2int (upperhex (N.shiftr (n_of c) 4))) 4)
                                      (hex2int (upperhex (N.land (n_of c) 15))))) c
              else negb (Byte.eqb c cPct) && negb (Byte.eqb c cPlus)) = true).
  { revert c. apply forall_byte. vm_compute. reflexivity. }
  unfold quote1. destruct (Byte.eqb c cSp) eqn:E1.
  - apply beqb_eq in E1. subst. reflexivity.
  - destruct (esc_arg c) eqn:E2.
    + apply andb_true_iff in H as [H H3]. apply andb_true_iff in H as [H1 H2].
      apply negb_true_iff in H1, H2. apply beqb_eq in H3.
      cbn [app dec andb]. change (Byte.eqb cPct cPct) with true. cbv iota.
      rewrite H1, H2. cbn [orb]. rewrite H3. reflexivity.
    + apply andb_true_iff in H as [H1 H2]. apply negb_true_iff in H1, H2.
      cbn [app dec andb]. rewrite H1, H2. reflexivity.
Qed.

Theorem dec_quote : forall s, dec true (quote s) = s.
Proof.
  induction s as [|c s IH]; simpl; auto.
  rewrite quote1_dec. f_equal. exact IH.
Qed.

Lemma dec_fast s : memb cPct s = false -> memb cPlus s = false -> dec true s = s.
Proof.
  induction s as [|c s IH]; simpl; auto. intros H1 H2.
  apply orb_false_iff in H1 as [A1 B1]. apply orb_false_iff in H2 as [A2 B2].
  assert (Byte.eqb c cPct = false) as -> by (apply beqb_neq; intros ->; rewrite beqb_refl in A1; discriminate).
  assert (Byte.eqb c cPlus = false) as -> by (apply beqb_neq; intros ->; rewrite beqb_refl in A2; discriminate).
  f_equal. auto.
Qed.

Theorem unquote_quote : forall s, decode_arg (quote s) = s.
Proof.
  intros s. unfold decode_arg.
  destruct (negb (memb cPct (quote s)) && negb (memb cPlus (quote s))) eqn:E.
  - apply andb_true_iff in E as [E1 E2]. apply negb_true_iff in E1, E2.
    rewrite <- (dec_fast _ E1 E2). apply dec_quote.
  - apply dec_quote.
Qed.
Print Assumptions unquote_quote.

(* quote never emits '&' or '=' *)
Lemma quote1_clean c : forallb (fun b => negb (Byte.eqb b cAmp) && negb (Byte.eqb b cEq)) (quote1 c) = true.
Proof. revert c. apply forall_byte. vm_compute. reflexivity. Qed.

Lemma quote_clean s : forallb (fun b => negb (Byte.eqb b cAmp) && negb (Byte.eqb b cEq)) (quote s) = true.
Proof.
  induction s as [|c s IH]; simpl; auto. rewrite forallb_app, quote1_clean, IH. reflexivity.
Qed.

Definition wf (e : kv) : Prop := noValue e = true -> value e = [].

Lemma split_first_clean c a rest :
  forallb (fun b => negb (Byte.eqb b c)) a = true ->
  split_first c (a ++ c :: rest) = (a, Some rest).
Proof.
  induction a as [|x a IH]; simpl; intros H.
  - rewrite beqb_refl. reflexivity.
  - apply andb_true_iff in H as [H1 H2]. apply negb_true_iff in H1. rewrite H1, (IH H2). reflexivity.
Qed.
Lemma split_first_none c a :
  forallb (fun b => negb (Byte.eqb b c)) a = true -> split_first c a = (a, None).
Proof.
  induction a as [|x a IH]; simpl; intros H; auto.
  apply andb_true_iff in H as [H1 H2]. apply negb_true_iff in H1. rewrite H1, (IH H2). reflexivity.
Qed.

Lemma clean_amp s : forallb (fun b => negb (Byte.eqb b cAmp)) (quote s) = true.
Proof. pose proof (quote_clean s) as H. rewrite forallb_forall in *. intros x Hx. specialize (H x Hx). apply andb_true_iff in H as [H _]. exact H. Qed.
Lemma clean_eq s : forallb (fun b => negb (Byte.eqb b cEq)) (quote s) = true.
Proof. pose proof (quote_clean s) as H. rewrite forallb_forall in *. intros x Hx. specialize (H x Hx). apply andb_true_iff in H as [_ H]. exact H. Qed.

Lemma enc1_noamp e : forallb (fun b => negb (Byte.eqb b cAmp)) (enc1 e) = true.
Proof.
  unfold enc1. rewrite forallb_app, clean_amp. destruct (noValue e); simpl; auto. apply clean_amp.
Qed.

Lemma chunk_parse e : wf e ->
  match split_first cEq (enc1 e) with
  | (k, Some v) => {| key := decode_arg k; value := decode_arg v; noValue := false |}
  | (k, None) => {| key := decode_arg k; value := []; noValue := true |}
  end = e.
Proof.
  intros W. unfold enc1. destruct e as [k v nv]; simpl in *. destruct nv.
  - pose proof (W eq_refl) as Hv. simpl in Hv. subst v.
    rewrite app_nil_r, (split_first_none _ _ (clean_eq k)), unquote_quote. reflexivity.
  - rewrite (split_first_clean _ _ _ (clean_eq k)), !unquote_quote. reflexivity.
Qed.

Lemma quote1_nonnil c : quote1 c <> [].
Proof. unfold quote1. destruct (Byte.eqb c cSp); [discriminate|]. destruct (esc_arg c); discriminate. Qed.
Lemma quote_nil s : quote s = [] -> s = [].
Proof.
  destruct s as [|c s]; auto. simpl. intros H. apply app_eq_nil in H as [H _].
  exfalso. exact (quote1_nonnil c H).
Qed.

Lemma enc1_nil e : wf e -> enc1 e = [] -> nonempty e = false.
Proof.
  intros W. unfold enc1. destruct e as [k v nv]; simpl in *. intros H.
  apply app_eq_nil in H as [Hk Hv]. apply quote_nil in Hk. subst k.
  destruct nv; [|discriminate]. pose proof (W eq_refl) as Hv'. simpl in Hv'. subst v. reflexivity.
Qed.

Lemma scan_last e : wf e -> enc1 e <> [] -> scan_next (enc1 e) = Some (e, []).
Proof.
  intros W Hne. unfold scan_next. destruct (enc1 e) as [|x r] eqn:E; [congruence|].
  rewrite <- E. rewrite (split_first_none _ _ (enc1_noamp e)).
  pose proof (chunk_parse e W) as C. destruct (split_first cEq (enc1 e)) as [k [v|]]; rewrite C; reflexivity.
Qed.

Lemma scan_cons e rest : wf e -> scan_next (enc1 e ++ cAmp :: rest) = Some (e, rest).
Proof.
  intros W. unfold scan_next.
  destruct (enc1 e ++ cAmp :: rest) as [|x r] eqn:E.
  - apply app_eq_nil in E as [_ E]. discriminate.
  - rewrite <- E. rewrite (split_first_clean _ _ _ (enc1_noamp e)).
    pose proof (chunk_parse e W) as C. destruct (split_first cEq (enc1 e)) as [k [v|]]; rewrite C; reflexivity.
Qed.

Theorem args_roundtrip : forall l, Forall wf l ->
  parse (S (length l)) (encode l) = Some (filter nonempty l).
Proof.
  induction l as [|e l IH]; intros F.
  - reflexivity.
  - inversion F as [|? ? W Fl]; subst. specialize (IH Fl).
    destruct l as [|e2 l].
    + (* last element *)
      cbn [encode length]. cbn [parse].
      destruct (enc1 e) as [|x r] eqn:E.
      * cbn [scan_next filter]. rewrite (enc1_nil e W E). reflexivity.
      * rewrite <- E. rewrite (scan_last e W) by (rewrite E; discriminate).
        cbn [parse scan_next filter]. destruct (nonempty e); reflexivity.
    + change (encode (e :: e2 :: l)) with (enc1 e ++ cAmp :: encode (e2 :: l)).
      change (parse (S (length (e :: e2 :: l))) (enc1 e ++ cAmp :: encode (e2 :: l)))
        with (match scan_next (enc1 e ++ cAmp :: encode (e2 :: l)) with
              | None => Some []
              | Some (e0, rest) => match parse (S (length (e2 :: l))) rest with
                                   | None => None
                                   | Some l0 => Some (if nonempty e0 then e0 :: l0 else l0)
                                   end
              end).
      rewrite (scan_cons e _ W), IH. cbn [filter]. destruct (nonempty e); reflexivity.
Qed.
Print Assumptions args_roundtrip.
