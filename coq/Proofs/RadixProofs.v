(* C06, the compressed tree: the recursive lookup over a well-formed radix tree is the priority
   search over the routes the tree holds (so, by RouterProofs, it returns the documented best match). *)
From Coq Require Import String.
From Coq Require Import List Strings.Byte NArith Lia Bool Arith.
Require Import Bytes Show Router RouterProofs Radix.
Import ListNotations.

Lemma find0_nil : forall f s, find0 f [] s = None.
Proof.
  induction f as [|f IH]; intros s; simpl; auto.
  destruct s; simpl; auto. rewrite !IH. reflexivity.
Qed.

(* ---------- find0 does not depend on fuel once it exceeds the longest pattern ---------- *)
Lemma find0_fuel : forall f1 f2 rs s, short f1 rs -> short f2 rs -> find0 f1 rs s = find0 f2 rs s.
Proof.
  induction f1 as [|f1 IH]; intros f2 rs s S1 S2.
  - destruct rs as [|[p h] rs]; [| specialize (S1 p h (or_introl eq_refl)); lia].
    rewrite !find0_nil. reflexivity.
  - destruct f2 as [|f2].
    + destruct rs as [|[p h] rs]; [| specialize (S2 p h (or_introl eq_refl)); lia].
      rewrite !find0_nil. reflexivity.
    + cbn [find0]. destruct s as [|x s']; auto.
      rewrite (IH f2 (adv (L x) rs) s') by (apply short_adv; auto).
      rewrite (IH f2 (adv P rs) (drop_seg (x :: s'))) by (apply short_adv; auto).
      reflexivity.
Qed.

Lemma adv_prepend_cons t pre rs : adv t (map (prepend (t :: pre)) rs) = map (prepend pre) rs.
Proof.
  induction rs as [|[p h] rs IH]; simpl; auto.
  assert (tok_eqb t t = true) as -> by (apply tok_eqb_eq; reflexivity). simpl. rewrite IH. reflexivity.
Qed.

Lemma adv_prepend_other t t' pre rs : t <> t' -> adv t (map (prepend (t' :: pre)) rs) = [].
Proof.
  intros N. induction rs as [|[p h] rs IH]; simpl; auto.
  assert (tok_eqb t t' = false) as ->.
  { destruct (tok_eqb t t') eqn:E; auto. apply tok_eqb_eq in E. contradiction. }
  simpl. exact IH.
Qed.

Lemma first_with_prepend_cons f t pre rs : f (t :: pre ++ []) = f (t :: pre ++ []) ->
  (forall q, f (t :: q) = false) -> first_with f (map (prepend (t :: pre)) rs) = None.
Proof.
  intros _ H. induction rs as [|[p h] rs IH]; simpl; auto. rewrite H. exact IH.
Qed.

Lemma short_prepend fuel pre rs : short fuel rs -> short (length pre + fuel) (map (prepend pre) rs).
Proof.
  intros S p h Hin. apply in_map_iff in Hin as [[q h'] [E Hin]]. unfold prepend in E. simpl in E.
  inversion E; subst. rewrite app_length. specialize (S _ _ Hin). lia.
Qed.

(* searching a list whose routes all start with the literal string [pre] *)
Lemma find0_literal_prefix : forall pre fuel rs s, short fuel rs ->
  find0 (length pre + fuel) (map (prepend (map L pre)) rs) s =
  match strip_prefix pre s with Some rest => find0 fuel rs rest | None => None end.
Proof.
  induction pre as [|c pre IH]; intros fuel rs s Sh.
  - simpl. unfold prepend. rewrite map_ext with (g := fun r => r) by (intros [p h]; reflexivity).
    rewrite map_id. reflexivity.
  - simpl length. cbn [plus find0 map]. destruct s as [|x s'].
    + simpl strip_prefix.
      rewrite (first_with_prepend_cons is_nil (L c) (map L pre) rs eq_refl) by reflexivity.
      rewrite (first_with_prepend_cons is_any (L c) (map L pre) rs eq_refl) by reflexivity.
      reflexivity.
    + simpl strip_prefix.
      (* the param and catch-all branches are empty: every route starts with the literal c *)
      rewrite (adv_prepend_other P (L c)) by discriminate. rewrite find0_nil.
      rewrite (first_with_prepend_cons is_any (L c) (map L pre) rs eq_refl) by reflexivity.
      destruct (Byte.eqb c x) eqn:E.
      * apply beqb_eq in E. subst x. rewrite adv_prepend_cons, IH by auto.
        destruct (strip_prefix pre s') as [rest|] eqn:SP; [destruct (find0 fuel rs rest)|]; reflexivity.
      * assert (N : L x <> L c) by (intros H; inversion H; subst; rewrite beqb_refl in E; discriminate).
        rewrite (adv_prepend_other (L x) (L c)) by exact N. rewrite find0_nil. reflexivity.
Qed.

(* structural well-formedness of the tree built by insert *)
Fixpoint wf (n : node) : Prop :=
  match n with Node k pre cs pc ac h =>
    (k = Sk -> pre <> []) /\
    (k = Ak -> cs = [] /\ pc = None /\ ac = None /\ h <> None) /\
    (fix all (l : list node) : Prop := match l with [] => True | c :: l' => (nkind c = Sk /\ wf c) /\ all l' end) cs /\
    NoDup (map nlabel cs) /\
    (match pc with Some c => nkind c = Pk /\ wf c | None => True end) /\
    (match ac with Some c => nkind c = Ak /\ wf c | None => True end)
  end.

(* induction principle for the nested type *)
Section NodeInd.
Variable Pn : node -> Prop.
Hypothesis Hnode : forall k pre cs pc ac h,
  Forall Pn cs -> (forall c, pc = Some c -> Pn c) -> (forall c, ac = Some c -> Pn c) -> Pn (Node k pre cs pc ac h).
Fixpoint node_ind' (n : node) : Pn n :=
  match n with Node k pre cs pc ac h =>
    Hnode k pre cs pc ac h
      ((fix go (l : list node) : Forall Pn l := match l with [] => Forall_nil _ | c :: l' => Forall_cons c (node_ind' c) (go l') end) cs)
      (fun c (E : pc = Some c) => match pc as o return o = Some c -> Pn c with
                                  | Some c0 => fun E0 => match E0 in _ = y return match y with Some c1 => Pn c1 | None => True end with eq_refl => node_ind' c0 end
                                  | None => fun E0 => match E0 with eq_refl => I end end E)
      (fun c (E : ac = Some c) => match ac as o return o = Some c -> Pn c with
                                  | Some c0 => fun E0 => match E0 in _ = y return match y with Some c1 => Pn c1 | None => True end with eq_refl => node_ind' c0 end
                                  | None => fun E0 => match E0 with eq_refl => I end end E)
  end.
End NodeInd.

(* ---------- facts about adv / first_with over concatenations ---------- *)
Lemma adv_app t a b : adv t (a ++ b) = adv t a ++ adv t b.
Proof. unfold adv. apply flat_map_app. Qed.

Lemma first_with_app f a b : first_with f (a ++ b) = orelse (first_with f a) (first_with f b).
Proof. induction a as [|[p h] a IH]; simpl; auto. destruct (f p); simpl; auto. Qed.

Lemma prepend_nil rs : map (prepend []) rs = rs.
Proof. induction rs as [|[p h] rs IH]; simpl; auto. unfold prepend at 1. simpl. rewrite IH. reflexivity. Qed.

Lemma adv_own t h : adv t (own h) = [].
Proof. destruct h; reflexivity. Qed.

(* routes of a static child with label x *)
Lemma paths_static k pre cs pc ac h : paths (Node k pre cs pc ac h) =
  map (prepend (toks k pre)) (own h ++ flat_map paths cs ++ opt paths pc ++ opt paths ac).
Proof. destruct pc, ac; reflexivity. Qed.

Definition U (n : node) : list route :=
  match n with Node k pre cs pc ac h => own h ++ flat_map paths cs ++ opt paths pc ++ opt paths ac end.
Lemma paths_U n : paths n = map (prepend (toks (nkind n) (match n with Node _ p _ _ _ _ => p end))) (U n).
Proof. destruct n. apply paths_static. Qed.

Lemma short_U fuel n : short fuel (paths n) -> short fuel (U n).
Proof.
  intros S p h Hin. rewrite paths_U in S.
  specialize (S (toks (nkind n) (match n with Node _ p _ _ _ _ => p end) ++ p) h).
  rewrite app_length in S. assert (length (toks (nkind n) match n with Node _ p0 _ _ _ _ => p0 end) + length p < fuel); [|lia].
  apply S. apply in_map_iff. exists (p, h). auto.
Qed.

(* a static node with non-empty prefix: nothing in the param / catch-all / end classes *)
Lemma static_classes c pre cs pc ac h :
  let n := Node Sk (c :: pre) cs pc ac h in
  adv P (paths n) = [] /\ first_with is_any (paths n) = None /\ first_with is_nil (paths n) = None /\
  (forall y, y <> c -> adv (L y) (paths n) = []) /\
  adv (L c) (paths n) = map (prepend (map L pre)) (U n).
Proof.
  intros n. unfold n. rewrite paths_static. simpl toks. repeat split.
  - apply adv_prepend_other. discriminate.
  - apply (first_with_prepend_cons is_any (L c) (map L pre) _ eq_refl). reflexivity.
  - apply (first_with_prepend_cons is_nil (L c) (map L pre) _ eq_refl). reflexivity.
  - intros y Hy. apply adv_prepend_other. intros E. inversion E. contradiction.
  - apply adv_prepend_cons.
Qed.

Lemma param_classes pre cs pc ac h :
  let n := Node Pk pre cs pc ac h in
  adv P (paths n) = U n /\ first_with is_any (paths n) = None /\ first_with is_nil (paths n) = None /\
  (forall y, adv (L y) (paths n) = []).
Proof.
  intros n. unfold n. rewrite paths_static. simpl toks. repeat split.
  - rewrite adv_prepend_cons. apply prepend_nil.
  - apply (first_with_prepend_cons is_any P [] _ eq_refl). reflexivity.
  - apply (first_with_prepend_cons is_nil P [] _ eq_refl). reflexivity.
  - intros y. apply adv_prepend_other. discriminate.
Qed.

Lemma any_paths pre y : paths (Node Ak pre [] None None (Some y)) = [([A], y)].
Proof. reflexivity. Qed.

(* ---------- the lookup, unfolded ---------- *)
Definition go_static (c : byte) (rest : bs) : list node -> option nat :=
  fix go (l : list node) : option nat :=
    match l with [] => None | ch :: l' => if has_label c ch then ft ch rest else go l' end.

Definition after (cs : list node) (pc ac : option node) (h : option nat) (rest : bs) : option nat :=
  orelse (match rest, h with [], Some x => Some x | _, _ => None end)
  (orelse (match rest with c :: _ => go_static c rest cs | [] => None end)
  (orelse (match rest, pc with _ :: _, Some ch => ft ch rest | _, _ => None end)
          (match ac with Some ch => ft ch rest | None => None end))).

Lemma ft_unfold k pre cs pc ac h s : ft (Node k pre cs pc ac h) s =
  match k with
  | Sk => match strip_prefix pre s with Some rest => after cs pc ac h rest | None => None end
  | Pk => after cs pc ac h (drop_seg s)
  | Ak => h
  end.
Proof. reflexivity. Qed.

(* the statement proved for every node *)
Definition Eq (n : node) : Prop :=
  wf n -> forall s f, short (S f) (paths n) -> (nkind n = Pk -> s <> []) -> ft n s = find0 (S f) (paths n) s.

Definition wfl (l : list node) : Prop :=
  (fix all (l : list node) : Prop := match l with [] => True | c :: l' => (nkind c = Sk /\ wf c) /\ all l' end) l.

Lemma short_app_l f a b : short f (a ++ b) -> short f a.
Proof. intros S p h Hin. apply (S p h). apply in_or_app. auto. Qed.
Lemma short_app_r f a b : short f (a ++ b) -> short f b.
Proof. intros S p h Hin. apply (S p h). apply in_or_app. auto. Qed.

(* children whose labels all differ from x contribute nothing to the static class of x *)
Lemma adv_other_labels x cs : wfl cs -> ~ In (Some x) (map nlabel cs) -> adv (L x) (flat_map paths cs) = [].
Proof.
  induction cs as [|c cs IH]; simpl; intros W N; auto.
  destruct W as [[K Wc] W]. rewrite adv_app, IH; auto.
  rewrite app_nil_r. destruct c as [k pre cs' pc ac h]. simpl in K. subst k.
  destruct Wc as (Hpre & _). destruct pre as [|y pre]; [exfalso; apply Hpre; auto|].
  destruct (static_classes y pre cs' pc ac h) as (_ & _ & _ & Hoth & _).
  apply Hoth. intros E. subst. apply N. left. reflexivity.
Qed.

Lemma orelse_none_r {T} (a : option T) : orelse a None = a. Proof. destruct a; reflexivity. Qed.

Lemma go_static_cons c rest ch l : go_static c rest (ch :: l) = if has_label c ch then ft ch rest else go_static c rest l.
Proof. reflexivity. Qed.
Lemma has_label_node c k y pre cs pc ac h : has_label c (Node k (y :: pre) cs pc ac h) = Byte.eqb y c.
Proof. reflexivity. Qed.

Lemma static_branch x r : forall cs f, Forall Eq cs -> wfl cs -> NoDup (map nlabel cs) ->
  short (S f) (flat_map paths cs) ->
  find0 f (adv (L x) (flat_map paths cs)) r = go_static x (x :: r) cs.
Proof.
  induction cs as [|c cs IH]; intros f FE W ND Sh.
  - simpl. apply find0_nil.
  - inversion FE as [|? ? Ec FE']; subst. destruct W as [[K Wc] W]. inversion ND as [|? ? Nin ND']; subst.
    simpl flat_map in *. rewrite adv_app.
    destruct c as [k pre cs' pc ac h]. simpl in K. subst k.
    pose proof Wc as Wc0. destruct Wc as (Hpre & _). destruct pre as [|y pre]; [exfalso; apply Hpre; auto|].
    destruct (static_classes y pre cs' pc ac h) as (HP & HA & HN & Hoth & Hsame).
    rewrite go_static_cons, has_label_node.
    destruct (Byte.eqb y x) eqn:E.
    + apply beqb_eq in E. subst y.
      rewrite (adv_other_labels x cs W) by exact Nin. rewrite app_nil_r.
      rewrite (Ec Wc0 (x :: r) f (short_app_l _ _ _ Sh)) by discriminate.
      cbn [find0]. rewrite HP, HA, find0_nil. rewrite !orelse_none_r. reflexivity.
    + rewrite Hoth by (intros E'; subst; rewrite beqb_refl in E; discriminate).
      simpl app. apply IH; auto. apply (short_app_r _ _ _ Sh).
Qed.

(* static children never contribute to the param / catch-all / end classes *)
Lemma static_children_classes cs : wfl cs ->
  adv P (flat_map paths cs) = [] /\ first_with is_any (flat_map paths cs) = None /\ first_with is_nil (flat_map paths cs) = None.
Proof.
  induction cs as [|c cs IH]; simpl; intros W; auto.
  destruct W as [[K Wc] W]. destruct (IH W) as (A1 & A2 & A3).
  destruct c as [k pre cs' pc ac h]. simpl in K. subst k.
  destruct Wc as (Hpre & _). destruct pre as [|y pre]; [exfalso; apply Hpre; auto|].
  destruct (static_classes y pre cs' pc ac h) as (HP & HA & HN & _ & _).
  rewrite adv_app, !first_with_app, HP, HA, HN, A1, A2, A3. auto.
Qed.

(* what a well-formed catch-all child looks like *)
Lemma any_child c : nkind c = Ak -> wf c -> exists pre y, c = Node Ak pre [] None None (Some y).
Proof.
  destruct c as [k pre cs pc ac h]. simpl. intros -> (_ & HA & _).
  destruct (HA eq_refl) as (-> & -> & -> & Hh). destruct h as [y|]; [|congruence]. eauto.
Qed.

Lemma param_child c : nkind c = Pk -> exists pre cs pc ac h, c = Node Pk pre cs pc ac h.
Proof. destruct c as [k pre cs pc ac h]. simpl. intros ->. eauto 6. Qed.

(* the routes below a node, searched after the node's own tokens *)
Lemma after_eq cs pc ac h : Forall Eq cs -> (forall c, pc = Some c -> Eq c) -> (forall c, ac = Some c -> Eq c) ->
  wfl cs -> NoDup (map nlabel cs) ->
  (match pc with Some c => nkind c = Pk /\ wf c | None => True end) ->
  (match ac with Some c => nkind c = Ak /\ wf c | None => True end) ->
  forall rest f, short (S f) (own h ++ flat_map paths cs ++ opt paths pc ++ opt paths ac) ->
  find0 (S f) (own h ++ flat_map paths cs ++ opt paths pc ++ opt paths ac) rest = after cs pc ac h rest.
Proof.
  intros FE Ep Ea W ND Wp Wa rest f Sh.
  destruct (static_children_classes cs W) as (SP & SA & SN).
  (* the catch-all child, if any, is a single route [A] *)
  assert (HA : exists oa, opt paths ac = match oa with Some y => [([A], y)] | None => [] end /\
                          (forall s, match ac with Some ch => ft ch s | None => None end = oa)).
  { destruct ac as [c|]; [|exists None; auto]. destruct Wa as [Ka Wc].
    destruct (any_child c Ka Wc) as (pre & y & ->). exists (Some y). split; reflexivity. }
  destruct HA as (oa & HAp & HAf).
  (* the param child's routes all start with P *)
  assert (HP : adv P (opt paths pc) = opt U pc /\ first_with is_any (opt paths pc) = None /\
               first_with is_nil (opt paths pc) = None /\ (forall y, adv (L y) (opt paths pc) = [])).
  { destruct pc as [c|]; [|simpl; auto]. destruct Wp as [Kp _].
    destruct (param_child c Kp) as (pre & cs' & pc' & ac' & h' & ->). apply param_classes. }
  destruct HP as (PP & PA & PN & PL).
  assert (AL : forall t, t <> A -> adv t (opt paths ac) = []).
  { intros t Ht. rewrite HAp. destruct oa; auto. simpl. destruct t; try reflexivity. contradiction. }
  unfold after. destruct rest as [|x r].
  - (* end of path *)
    cbn [find0]. rewrite !first_with_app, SN, SA, PN, PA, HAf.
    rewrite HAp. destruct h as [hx|], oa as [y|]; reflexivity.
  - cbn [find0]. rewrite !adv_app, !adv_own, SP, PP, PL, !first_with_app, SA, PA, HAf.
    rewrite (AL (L x)) by discriminate. rewrite (AL P) by discriminate.
    simpl app. rewrite !app_nil_r.
    assert (first_with is_any (own h) = None) as -> by (destruct h; reflexivity).
    assert (first_with is_any (opt paths ac) = oa) as -> by (rewrite HAp; destruct oa; reflexivity).
    (* static branch *)
    rewrite (static_branch x r cs f FE W ND).
    2:{ apply (short_app_l _ _ _ (short_app_r _ _ _ Sh)). }
    (* param branch *)
    assert (Hpar : find0 f (opt U pc) (drop_seg (x :: r)) = match pc with Some ch => ft ch (x :: r) | None => None end).
    { destruct pc as [c|]; [|simpl; apply find0_nil]. destruct Wp as [Kp Wc].
      destruct (param_child c Kp) as (pre & cs' & pc' & ac' & h' & ->).
      assert (Shc : short (S f) (paths (Node Pk pre cs' pc' ac' h'))).
      { apply (short_app_l _ _ _ (short_app_r _ _ _ (short_app_r _ _ _ Sh))). }
      rewrite (Ep _ eq_refl Wc (x :: r) f Shc) by discriminate.
      destruct (param_classes pre cs' pc' ac' h') as (Q1 & Q2 & Q3 & Q4).
      cbn [find0]. rewrite Q1, Q2, Q4, find0_nil. simpl orelse. rewrite orelse_none_r. reflexivity. }
    simpl opt. rewrite Hpar. simpl orelse.
    destruct h; reflexivity.
Qed.

Lemma wf_children k pre cs pc ac h : wf (Node k pre cs pc ac h) ->
  wfl cs /\ NoDup (map nlabel cs) /\
  (match pc with Some c => nkind c = Pk /\ wf c | None => True end) /\
  (match ac with Some c => nkind c = Ak /\ wf c | None => True end).
Proof. simpl. intros (_ & _ & W & ND & Wp & Wa). auto. Qed.

Theorem tree_find_eq : forall n, Eq n.
Proof.
  apply node_ind'. intros k pre cs pc ac h FE Ep Ea W s f Sh Ks.
  destruct (wf_children _ _ _ _ _ _ W) as (Wl & ND & Wp & Wa).
  rewrite ft_unfold. rewrite paths_static in *.
  set (Us := own h ++ flat_map paths cs ++ opt paths pc ++ opt paths ac) in *.
  assert (ShU : short (S f) Us).
  { intros p hh Hin. specialize (Sh (toks k pre ++ p) hh). rewrite app_length in Sh.
    assert (length (toks k pre) + length p < S f); [|lia]. apply Sh. apply in_map_iff. exists (p, hh). auto. }
  pose proof (after_eq cs pc ac h FE Ep Ea Wl ND Wp Wa) as AE. fold Us in AE.
  destruct k.
  - (* static node: walk the literal prefix *)
    simpl toks.
    rewrite (find0_fuel (S f) (length pre + S f)); auto.
    2:{ rewrite <- (map_length L pre). apply short_prepend. exact ShU. }
    rewrite find0_literal_prefix by exact ShU.
    destruct (strip_prefix pre s) as [rest|]; auto. symmetry. apply AE. exact ShU.
  - (* param node: consume one segment *)
    simpl toks. destruct s as [|x r]; [exfalso; apply Ks; auto|].
    cbn [find0]. rewrite adv_prepend_cons, prepend_nil.
    rewrite (adv_prepend_other (L x) P) by discriminate. rewrite find0_nil.
    rewrite (first_with_prepend_cons is_any P [] _ eq_refl) by reflexivity.
    simpl orelse. rewrite orelse_none_r.
    (* fuel f vs S f on the right *)
    destruct f as [|f'].
    + (* all patterns have length < 1, impossible for a non-empty list starting with P; the list is empty *)
      assert (Us = []) as E0.
      { destruct Us as [|[p hh] l]; auto. specialize (Sh ([P] ++ p) hh). simpl in Sh.
        assert (S (length p) < 1); [|lia]. apply Sh. left. reflexivity. }
      cbn [find0]. rewrite <- (AE (drop_seg (x :: r)) 0).
      * rewrite E0. rewrite find0_nil. reflexivity.
      * rewrite E0. intros ? ? [].
    + assert (ShU' : short (S f') Us).
      { intros p hh Hin. specialize (Sh ([P] ++ p) hh). simpl in Sh.
        assert (S (length p) < S (S f')); [|lia]. apply Sh. apply in_map_iff. exists (p, hh). auto. }
      symmetry. apply AE. exact ShU'.
  - (* catch-all node *)
    destruct W as (_ & HA & _). destruct (HA eq_refl) as (-> & -> & -> & Hh).
    destruct h as [y|]; [|congruence].
    unfold Us. change (map (prepend (toks Ak pre)) (own (Some y) ++ flat_map paths [] ++ opt paths None ++ opt paths None))
      with [([A], y)].
    destruct s as [|b s]; [reflexivity|].
    cbn [find0]. change (adv (L b) [([A], y)]) with (@nil route). change (adv P [([A], y)]) with (@nil route).
    rewrite !find0_nil. reflexivity.
Qed.


(* ---------- the handler-only search is Router.find without the values ---------- *)
Lemma find0_find : forall f rs s, find0 f rs s = option_map fst (find f rs s).
Proof.
  induction f as [|f IH]; intros rs s; cbn [find0 find]; [reflexivity|].
  destruct s as [|x s'].
  - destruct (first_with is_nil rs); cbn [orelse option_map leaf fst]; [reflexivity|].
    destruct (first_with is_any rs); reflexivity.
  - rewrite !IH. destruct (find f (adv (L x) rs) s') as [[h vs]|]; cbn [orelse option_map fst]; [reflexivity|].
    destruct (find f (adv P rs) (drop_seg (x :: s'))) as [[h vs]|]; cbn [orelse option_map with_val leaf fst]; [reflexivity|].
    destruct (first_with is_any rs); reflexivity.
Qed.

(* ---------- the decidable well-formedness check is sound ---------- *)
Lemma kind_eqb_eq a b : kind_eqb a b = true -> a = b.
Proof. destruct a, b; cbn; intros H; congruence. Qed.

Lemma nodup_labels_sound l : nodup_labels l = true -> NoDup l.
Proof.
  induction l as [|x r IH]; cbn [nodup_labels]; intros H; [constructor|].
  apply andb_true_iff in H as [H1 H2]. constructor; [|apply IH; exact H2].
  intros Hin. apply negb_true_iff in H1.
  assert (E : existsb (fun y => match x, y with Some a, Some b => Byte.eqb a b | None, None => true | _, _ => false end) r = true).
  { apply existsb_exists. exists x. split; [exact Hin|]. destruct x; [apply beqb_refl|reflexivity]. }
  congruence.
Qed.

Theorem wfb_sound : forall n, wfb n = true -> wf n.
Proof.
  apply (node_ind' (fun n => wfb n = true -> wf n)).
  intros k pre cs pc ac h Fc Fp Fa H. cbn [wfb] in H.
  apply andb_true_iff in H as [H Hac]. apply andb_true_iff in H as [H Hpc].
  apply andb_true_iff in H as [H Hnd]. apply andb_true_iff in H as [H Hcs]. apply andb_true_iff in H as [Hs Ha].
  cbn [wf]. split; [|split; [|split; [|split; [|split]]]].
  - intros ->. destruct pre; [discriminate|discriminate].
  - intros ->. repeat (apply andb_true_iff in Ha as [Ha ?]).
    destruct cs; [|discriminate]. destruct pc; [discriminate|]. destruct ac; [discriminate|]. destruct h; [|discriminate].
    repeat split; discriminate.
  - clear -Fc Hcs. induction cs as [|c r IH]; [exact I|]. cbn [forallb] in Hcs. apply andb_true_iff in Hcs as [K1 K2].
    apply andb_true_iff in K1 as [Ka Kb]. inversion Fc; subst. split; [split; [apply kind_eqb_eq; exact Ka|auto]|apply IH; auto].
  - apply nodup_labels_sound. exact Hnd.
  - destruct pc as [c|]; [|exact I]. apply andb_true_iff in Hpc as [Ka Kb].
    split; [apply kind_eqb_eq; exact Ka|apply (Fp c eq_refl Kb)].
  - destruct ac as [c|]; [|exact I]. apply andb_true_iff in Hac as [Ka Kb].
    split; [apply kind_eqb_eq; exact Ka|apply (Fa c eq_refl Kb)].
Qed.

(* the lookup over a well-formed tree with a static root is the priority search over its routes *)
Theorem radix_lookup_is_the_search n s f :
  wf n -> nkind n = Sk -> short (S f) (paths n) ->
  ft n s = option_map fst (find (S f) (paths n) s).
Proof.
  intros W K Sh. rewrite <- find0_find. apply (tree_find_eq n W s f Sh). rewrite K. discriminate.
Qed.
