(* C14: the hypothesis `length p <= n` of the stream theorems, as far as ReadBodyWithStreaming establishes it. *)
From Coq Require Import String.
From Coq Require Import List Strings.Byte NArith Bool Arith Lia.
Require Import Bytes Show Prefetch.
Import ListNotations.
Local Open Scope nat_scope.

(* a declared length within the limit: exactly min(length, 8 KiB) bytes are taken, never more than the body *)
Theorem prefetch_within_limit cl limit cap avail : cl <= eff_limit limit ->
  prefetch cl limit cap avail = Nat.min cl max_in_stream /\ prefetch cl limit cap avail <= cl.
Proof.
  intros H. unfold prefetch. apply Nat.leb_le in H. rewrite H. apply Nat.leb_le in H. split; lia.
Qed.

(* a declared length above the limit: the loop takes whatever is buffered, in steps of the destination's size,
   until the limit is passed - it can take more than the body holds (known finding D27) *)
Theorem prefetch_over_limit_refuted : exists cl limit cap avail,
  eff_limit limit < cl /\ cl < prefetch cl limit cap avail.
Proof. exists 100, 50, 0, [N.to_nat 4096]. split; vm_compute; lia. Qed.

(* what bounds it there: the limit plus one destination step *)
Lemma identity_loop_bound : forall avail max dlen offset, offset <= max ->
  identity_loop avail max dlen offset <= max + (dlen - offset) \/ identity_loop avail max dlen offset <= 2 * max + 1.
Proof.
  induction avail as [|a rest IH]; intros max dlen offset L; cbn [identity_loop]; [left; lia|].
  set (nn := Nat.min a (dlen - offset)). destruct (Nat.ltb_spec max (offset + nn)) as [G|G].
  - left. subst nn. lia.
  - destruct (Nat.eqb_spec dlen (offset + nn)) as [E|E].
    + destruct (Nat.ltb_spec max (round2 (2 * (offset + nn)))) as [R|R].
      * destruct (IH max (max + 1) (offset + nn) G) as [B|B]; [right; lia|right; exact B].
      * destruct (IH max (round2 (2 * (offset + nn))) (offset + nn) G) as [B|B]; [right; lia|right; exact B].
    + destruct (IH max dlen (offset + nn) G) as [B|B]; [left; lia|right; exact B].
Qed.
