(* C07: from segment lists back to byte strings — every input of normalizePath. *)
From Coq Require Import String.
From Coq Require Import List Strings.Byte NArith Lia Bool Arith.
Require Import Bytes Show Tables Codec Norm Seg Norm2 Norm3 Norm4 Norm5 Norm6.
Import ListNotations.

(* split a string at '/' (always at least one segment) *)
Fixpoint segs (s : bs) : list bs :=
  match s with
  | [] => [[]]
  | c :: r => if Byte.eqb c sl then [] :: segs r
              else match segs r with
                   | g :: gs => (c :: g) :: gs
                   | [] => [[c]]
                   end
  end.

Lemma segs_nonnil s : segs s <> [].
Proof. induction s as [|c r IH]; simpl; [discriminate|]. destruct (Byte.eqb c sl); [discriminate|]. destruct (segs r); discriminate. Qed.

Lemma segs_render s : render (segs s) = sl :: s.
Proof.
  induction s as [|c r IH]; simpl; [reflexivity|].
  destruct (Byte.eqb c sl) eqn:E.
  - apply beqb_eq in E. subst. simpl. rewrite IH. reflexivity.
  - destruct (segs r) as [|g gs] eqn:G; [exfalso; eapply segs_nonnil; eauto|].
    simpl in *. injection IH as IH. rewrite <- IH. reflexivity.
Qed.

Lemma segs_nosl s : Forall nosl (segs s).
Proof.
  induction s as [|c r IH]; simpl.
  - repeat constructor. intros [].
  - destruct (Byte.eqb c sl) eqn:E.
    + constructor; auto. intros [].
    + destruct (segs r) as [|g gs] eqn:G; [repeat constructor|].
      * intros [H|[]]. subst. rewrite beqb_refl in E. discriminate.
      * inversion IH; subst. constructor; auto. intros [H|H]; [subst; rewrite beqb_refl in E; discriminate|].
        contradiction.
Qed.

(* the working string of normalizePath always starts with '/' *)
Lemma dec_false_head c r : Byte.eqb c cPct = false -> dec false (c :: r) = c :: dec false r.
Proof. intros H. cbn [dec]. rewrite H. reflexivity. Qed.

Lemma working_starts_sl src : exists r, add_leading_slash src ++ decode_noplus src = sl :: r.
Proof.
  destruct src as [|c r]; simpl.
  - eexists; reflexivity.
  - destruct (Byte.eqb c sl) eqn:E; simpl.
    + apply beqb_eq in E. subst c. unfold decode_noplus.
      destruct (negb (memb cPct (sl :: r))); [eexists; reflexivity|].
      rewrite dec_false_head by reflexivity. eexists; reflexivity.
    + eexists; reflexivity.
Qed.

(* The property's containment clause, on the unique slash-free segment decomposition. *)
Definition contained (p : bs) : Prop :=
  exists gs, p = render gs /\ Forall nosl gs /\ gs <> [] /\
    (forall i g, nth_error gs i = Some g ->
       g <> dd /\ (S i < length gs -> g <> [] /\ g <> [x2e])).

Lemma nonlast_free_nth Y gs i g : nonlast_free Y gs -> nth_error gs i = Some g -> S i < length gs -> g <> Y.
Proof.
  intros H N L. apply nth_error_split in N as (p & q & E & Lp). subst.
  apply (H p g q); auto. intros ->. rewrite app_length in L. simpl in L. lia.
Qed.

Lemma last_nth {A} (gs : list A) i g d : nth_error gs i = Some g -> S i = length gs -> last gs d = g.
Proof.
  intros N L. apply nth_error_split in N as (p & q & E & Lp). subst.
  rewrite app_length in L. simpl in L. destruct q; [|simpl in L; lia].
  apply last_snoc.
Qed.

Lemma seg_ok_contained gs : Forall nosl gs -> seg_ok gs -> contained (render gs).
Proof.
  intros F (Hne & F0 & F1 & F2 & HL). exists gs. repeat split; auto.
  - destruct (Nat.eq_dec (S i) (length gs)) as [E|E].
    + rewrite <- (last_nth gs i g [] H E). exact HL.
    + apply (nonlast_free_nth dd gs i g F2 H).
      assert (i < length gs) by (apply nth_error_Some; congruence). lia.
  - eapply nonlast_free_nth; eauto.
  - eapply nonlast_free_nth; eauto.
Qed.

Theorem normalize_path_contained : forall src : bs,
  exists p, normalize_path src = Some p /\ contained p.
Proof.
  intros src. unfold normalize_path.
  destruct (working_starts_sl src) as [r ->].
  rewrite <- (segs_render r).
  destruct (C07_contained_proto (segs r) (segs_nosl r) (segs_nonnil r)) as (gs' & E & F & OK).
  exists (render gs'). split; [exact E|]. apply seg_ok_contained; auto.
Qed.
