(* C12: a static condition under which the int8 handler index never wraps around (D17): the number of handlers
   plus the number of Next calls written in them is at most 126 - AbortIndex (= 63).  The potential
   W(s) = max(idx s, AbortIndex) + (handlers not yet reached, one each, plus the Next calls written in them)
   grows by at most one per executed Next and never otherwise. *)
From Coq Require Import String.
From Coq Require Import List ZArith Lia Bool Arith Strings.Byte.
Require Import Bytes Show Tables Chain ChainProofs.
Import ListNotations.
Open Scope Z_scope.

Definition cn (a : list action) : Z :=
  fold_right (fun x acc => match x with ANext => 1 + acc | _ => acc end) 0 a.
Fixpoint cost (hs : list handler) : Z := match hs with [] => 0 | h :: r => 1 + cn h + cost r end.
(* what the handlers from position x on can still add *)
Definition f (hs : list handler) (x : Z) : Z := cost (skipn (Z.to_nat x) hs).

Lemma cn_nonneg a : 0 <= cn a.
Proof. unfold cn. induction a as [|x a IH]; cbn [fold_right]; [lia|]. destruct x; lia. Qed.
Lemma cost_nonneg hs : 0 <= cost hs.
Proof. induction hs as [|h r IH]; cbn [cost]; [lia|]. pose proof (cn_nonneg h). lia. Qed.
Lemma f_nonneg hs x : 0 <= f hs x.
Proof. apply cost_nonneg. Qed.
Lemma f_end hs x : Z.of_nat (length hs) <= x -> f hs x = 0.
Proof. intros H. unfold f. rewrite skipn_all2 by lia. reflexivity. Qed.
Lemma f_step hs x h : 0 <= x -> nth_error hs (Z.to_nat x) = Some h -> f hs x = 1 + cn h + f hs (x + 1).
Proof.
  intros P N. unfold f. replace (Z.to_nat (x + 1)) with (S (Z.to_nat x)) by lia.
  revert N. generalize (Z.to_nat x) as k. intros k. revert hs. induction k as [|k IH]; intros hs N; destruct hs as [|y r]; try discriminate.
  - inversion N; subst. reflexivity.
  - cbn [nth_error] in N. cbn [skipn]. apply IH. exact N.
Qed.
Lemma f_mono hs : forall x y, 0 <= x <= y -> f hs y <= f hs x.
Proof.
  intros x y H. unfold f. assert (L : (Z.to_nat x <= Z.to_nat y)%nat) by lia.
  revert L. generalize (Z.to_nat x) as a, (Z.to_nat y) as b. intros a b L.
  replace b with (a + (b - a))%nat by lia. generalize (b - a)%nat as d. intros d. clear.
  revert hs. induction a as [|a IH]; intros hs.
  - cbn [Nat.add]. revert hs. induction d as [|d IHd]; intros hs; [cbn; lia|]. destruct hs as [|h r]; [cbn; lia|].
    cbn [skipn cost]. pose proof (IHd r). pose proof (cn_nonneg h). cbn [skipn] in H. lia.
  - destruct hs as [|h r]; [cbn; lia|]. cbn [Nat.add skipn]. apply IH.
Qed.

Section NoWrap.
Variable hs : list handler.
Let len := Z.of_nat (length hs).
Hypothesis len_bound : len < abortIndex.
Hypothesis ab_range : 0 <= abortIndex <= 127.

Definition W (s : st) : Z := Z.max (idx s) abortIndex + f hs (idx s + 1).

(* a state below the budget: one more increment cannot wrap *)
Lemma incr_ok s : -1 <= idx s -> idx s + 1 <= 127 -> wrapped (incr s) = wrapped s /\ idx (incr s) = idx s + 1.
Proof.
  intros L B. unfold incr; cbn [wrapped idx]. split.
  - replace (127 <? idx s + 1) with false by (symmetry; apply Z.ltb_ge; lia). apply orb_false_r.
  - apply wrap8_id. lia.
Qed.

Lemma nthh_some i h : nthh hs i = Some h -> 0 <= i /\ nth_error hs (Z.to_nat i) = Some h.
Proof. unfold nthh. destruct (i <? 0) eqn:E; [discriminate|]. apply Z.ltb_ge in E. auto. Qed.

Theorem budget : forall fuel,
  (forall s s', next fuel hs s = Some s' -> -1 <= idx s -> W s + 1 <= 127 ->
     wrapped s' = wrapped s /\ -1 <= idx s' /\ W s' <= W s + 1) /\
  (forall s s', loop fuel hs s = Some s' -> -1 <= idx s -> Z.max (idx s) abortIndex + f hs (idx s) <= 127 ->
     wrapped s' = wrapped s /\ -1 <= idx s' /\ W s' <= Z.max (idx s) abortIndex + f hs (idx s)) /\
  (forall i a s s', acts fuel hs i a s = Some s' -> -1 <= idx s -> W s + cn a <= 127 ->
     wrapped s' = wrapped s /\ -1 <= idx s' /\ W s' <= W s + cn a).
Proof.
  induction fuel as [|fu IH]; [repeat split; intros; discriminate|].
  destruct IH as (IHn & IHl & IHa). split; [|split].
  - (* next *)
    intros s s' H L B. cbn [next] in H. unfold W in *.
    pose proof (f_nonneg hs (idx s + 1)) as Fn.
    destruct (incr_ok s L ltac:(lia)) as [Wi Ii].
    destruct (IHl _ _ H) as (A1 & A2 & A3); [rewrite Ii; lia|rewrite Ii; lia|].
    rewrite Ii in A3. rewrite A1, Wi. split; [reflexivity|]. split; [exact A2|lia].
  - (* loop *)
    intros s s' H L B. cbn [loop] in H. fold len in H.
    destruct (panicked s) eqn:P.
    { injection H as <-. split; [reflexivity|]. split; [exact L|]. unfold W.
      pose proof (f_mono hs (Z.max 0 (idx s)) (idx s + 1)). pose proof (f_nonneg hs (idx s + 1)).
      destruct (Z_lt_ge_dec (idx s) 0) as [N|N].
      - replace (idx s) with (-1) by lia. cbn. unfold f. cbn. lia.
      - pose proof (f_mono hs (idx s) (idx s + 1) ltac:(lia)). lia. }
    destruct (idx s <? len) eqn:Lt.
    2:{ apply Z.ltb_ge in Lt. injection H as <-. split; [reflexivity|]. split; [exact L|]. unfold W.
        rewrite (f_end hs (idx s + 1)) by (fold len; lia). rewrite (f_end hs (idx s)) by (fold len; lia). lia. }
    apply Z.ltb_lt in Lt.
    destruct (nthh hs (idx s)) as [h|] eqn:Nh.
    2:{ injection H as <-. cbn [wrapped idx W]. split; [reflexivity|]. split; [exact L|]. unfold W; cbn [idx].
        destruct (Z_lt_ge_dec (idx s) 0) as [N|N].
        - replace (idx s) with (-1) by lia. cbn. unfold f. cbn. lia.
        - pose proof (f_mono hs (idx s) (idx s + 1) ltac:(lia)). lia. }
    destruct (nthh_some _ _ Nh) as [I0 Nth].
    pose proof (f_step hs (idx s) h I0 Nth) as Fs. pose proof (cn_nonneg h) as Cn. pose proof (f_nonneg hs (idx s + 1)) as Fn.
    set (s1 := {| idx := idx s; tr := Enter (idx s) :: tr s; panicked := false; wrapped := wrapped s |}) in *.
    destruct (acts fu hs (idx s) h s1) as [s2|] eqn:Ac; [|discriminate].
    destruct (IHa _ _ _ _ Ac) as (B1 & B2 & B3); [cbn; exact L|unfold W; cbn [idx s1]; lia|].
    unfold W in B3; cbn [idx s1 wrapped] in B1, B3.
    destruct (panicked s2) eqn:P2.
    { injection H as <-. split; [exact B1|]. split; [exact B2|]. unfold W. lia. }
    set (s2' := {| idx := idx s2; tr := Exit (idx s) :: tr s2; panicked := false; wrapped := wrapped s2 |}) in *.
    pose proof (f_nonneg hs (idx s2 + 1)) as Fn2.
    destruct (incr_ok s2') as [Wi Ii]; [cbn; exact B2|cbn [idx s2']; lia|]. cbn [idx wrapped s2'] in Wi, Ii.
    destruct (IHl _ _ H) as (C1 & C2 & C3); [rewrite Ii; lia|rewrite Ii; lia|].
    rewrite Ii in C3. split; [rewrite C1, Wi; exact B1|]. split; [exact C2|lia].
  - (* acts *)
    intros i a s s' H L B. cbn [acts] in H. destruct a as [|[| |n] a'].
    + injection H as <-. cbn [cn fold_right]. split; [reflexivity|]. split; [exact L|lia].
    + cbn [cn fold_right] in *. fold (cn a') in *. pose proof (cn_nonneg a') as Cn.
      destruct (next fu hs s) as [s1|] eqn:N; [|discriminate].
      destruct (IHn _ _ N L ltac:(lia)) as (A1 & A2 & A3).
      destruct (panicked s1).
      * injection H as <-. split; [exact A1|]. split; [exact A2|lia].
      * destruct (IHa _ _ _ _ H A2 ltac:(lia)) as (B1 & B2 & B3). split; [rewrite B1; exact A1|]. split; [exact B2|lia].
    + cbn [cn fold_right] in *. fold (cn a') in *.
      set (s1 := {| idx := abortIndex; tr := Ab :: tr s; panicked := panicked s; wrapped := wrapped s |}) in *.
      assert (W1 : W s1 <= W s).
      { unfold W; cbn [idx s1]. rewrite (f_end hs (abortIndex + 1)) by (fold len; lia). pose proof (f_nonneg hs (idx s + 1)). lia. }
      destruct (IHa _ _ _ _ H) as (B1 & B2 & B3); [cbn; lia|lia|]. cbn [wrapped s1] in B1. split; [exact B1|]. split; [exact B2|lia].
    + cbn [cn fold_right] in *. fold (cn a') in *.
      set (s1 := {| idx := idx s; tr := Mark i n :: tr s; panicked := panicked s; wrapped := wrapped s |}) in *.
      destruct (IHa _ _ _ _ H) as (B1 & B2 & B3); [cbn; exact L|unfold W in *; cbn [idx s1]; exact B|].
      cbn [wrapped s1] in B1. unfold W in B3; cbn [idx s1] in B3. split; [exact B1|]. split; [exact B2|unfold W; exact B3].
Qed.

Theorem no_wrap : abortIndex + cost hs + 1 <= 127 ->
  forall fuel s', next fuel hs init = Some s' -> wrapped s' = false.
Proof.
  intros B fuel s' H. destruct (budget fuel) as (Bn & _ & _).
  destruct (Bn init s' H) as (A & _); [cbn; lia| |exact A].
  unfold W, init; cbn [idx]. unfold f. change (-1 + 1) with 0. change (Z.to_nat 0) with 0%nat. cbn [skipn]. lia.
Qed.
End NoWrap.
