(* The request head: the first line a client writes is read back, and the framing decision
   follows Transfer-Encoding before Content-Length whatever the order of the fields. *)
From Coq Require Import String.
From Coq Require Import List Strings.Byte NArith ZArith Bool Arith Lia.
Require Import Bytes Show Res Tables Chunk TrailerKeys Range HeaderScan HeaderScanProofs ReqHead.
Import ListNotations.
Local Open Scope nat_scope.

Lemma last_index_spec c : forall s i acc, ~ In c s -> last_index c s i acc = acc.
Proof.
  induction s as [|x s IH]; intros i acc H; cbn [last_index]; [reflexivity|].
  destruct (Byte.eqb x c) eqn:E; [apply beqb_eq in E; subst; exfalso; apply H; left; reflexivity|].
  apply IH. intros K. apply H. right. exact K.
Qed.

Lemma last_index_app c a b i acc : ~ In c b ->
  last_index c (a ++ c :: b) i acc = Some (i + length a).
Proof.
  revert i acc. induction a as [|x a IH]; intros i acc H; cbn [app last_index length].
  - rewrite beqb_refl. rewrite last_index_spec by exact H. f_equal. lia.
  - rewrite IH by exact H. f_equal. lia.
Qed.

(* the request line `method SP target SP HTTP/1.1 CRLF`: method, target and version come back, and
   parsing stops behind the line; the target may contain spaces *)
Theorem first_line_reads_back m u rest :
  m <> [] -> ~ In SPC m -> ~ In LF m -> u <> [] -> ~ In LF u ->
  parse_first_line (m ++ [SPC] ++ u ++ [SPC] ++ bytestr_StrHTTP11 ++ CRLF ++ rest) = FLOk m u true rest.
Proof.
  intros Nm Ms Ml Nu Ul.
  set (line := m ++ [SPC] ++ u ++ [SPC] ++ bytestr_StrHTTP11).
  assert (Ll : ~ In LF line).
  { unfold line. intros H. repeat (apply in_app_or in H as [H|H]); auto;
      try (cbn in H; repeat destruct H as [H|H]; try discriminate; auto). }
  assert (Eb : m ++ [SPC] ++ u ++ [SPC] ++ bytestr_StrHTTP11 ++ CRLF ++ rest = (line ++ [CR]) ++ LF :: rest).
  { unfold line, CRLF. rewrite <- !app_assoc. reflexivity. }
  unfold parse_first_line. rewrite Eb.
  set (b := (line ++ [CR]) ++ LF :: rest).
  assert (NL : next_line b = Some (line, rest)).
  { unfold next_line, b. rewrite index_byte_app.
    2:{ intros H. apply in_app_or in H as [H|[H|[]]]; [contradiction|discriminate]. }
    rewrite firstn_app, firstn_all, Nat.sub_diag. cbn [firstn]. rewrite app_nil_r.
    replace (S (length (line ++ [CR]))) with (length ((line ++ [CR]) ++ [LF])) by (rewrite app_length; cbn; lia).
    replace ((line ++ [CR]) ++ LF :: rest) with (((line ++ [CR]) ++ [LF]) ++ rest) by (rewrite <- app_assoc; reflexivity).
    rewrite skipn_app, skipn_all, Nat.sub_diag. cbn [skipn app].
    unfold drop_last_if. rewrite rev_app_distr. cbn [rev app]. change (Byte.eqb CR CR) with true. cbv iota.
    rewrite rev_involutive. reflexivity. }
  assert (F : first_nonempty_line (S (length b)) b = Some (line, rest)).
  { cbn [first_nonempty_line]. rewrite NL. unfold line. destruct m; [congruence|reflexivity]. }
  rewrite F.
  assert (IS : index_byte SPC line = Some (length m)) by (unfold line; apply index_byte_app; exact Ms).
  rewrite IS. destruct (length m) eqn:Lm; [destruct m; [congruence|discriminate]|]. rewrite <- Lm.
  assert (F1 : firstn (length m) line = m) by (unfold line; rewrite firstn_app, firstn_all, Nat.sub_diag; cbn; apply app_nil_r).
  assert (S1 : skipn (S (length m)) line = u ++ SPC :: bytestr_StrHTTP11).
  { unfold line. replace (S (length m)) with (length (m ++ [SPC])) by (rewrite app_length; cbn; lia).
    rewrite app_assoc, skipn_app, skipn_all, Nat.sub_diag. reflexivity. }
  rewrite F1, S1.
  assert (LI : last_index SPC (u ++ SPC :: bytestr_StrHTTP11) 0 None = Some (length u)).
  { rewrite last_index_app; [reflexivity|]. vm_compute. intros H. repeat destruct H as [H|H]; try discriminate; auto. }
  rewrite LI. destruct (length u) eqn:Lu; [destruct u; [congruence|discriminate]|]. rewrite <- Lu.
  rewrite firstn_app, firstn_all, Nat.sub_diag. cbn [firstn]. rewrite app_nil_r.
  replace (S (length u)) with (length (u ++ [SPC])) by (rewrite app_length; cbn; lia).
  replace (u ++ SPC :: bytestr_StrHTTP11) with ((u ++ [SPC]) ++ bytestr_StrHTTP11) by (rewrite <- app_assoc; reflexivity).
  rewrite skipn_app, skipn_all, Nat.sub_diag. cbn [skipn app].
  rewrite (proj2 (bs_eqb_eq _ _) eq_refl). reflexivity.
Qed.

(* ---------- framing ---------- *)
Lemma ci_compare_length : forall a b, ci_compare a b = true -> length a = length b.
Proof.
  induction a as [|x a IH]; intros [|y b] H; cbn [ci_compare] in H; try discriminate; [reflexivity|].
  apply andb_true_iff in H as [_ H]. cbn [length]. f_equal. apply IH. exact H.
Qed.

Definition is_te_chunked (kv : bs * bs) : bool :=
  ci_compare (fst kv) bytestr_StrTransferEncoding && negb (bs_eqb (snd kv) bytestr_StrIdentity).

(* once a Transfer-Encoding other than identity was seen, the message is chunked for good *)
Lemma chunked_is_absorbing : forall fs e c e', frame_of fs ((-1)%Z, e) = inl (c, e') -> c = (-1)%Z.
Proof.
  induction fs as [|[k v] fs IH]; intros e c e' H; cbn [frame_of] in H; [inversion H; reflexivity|].
  unfold frame_step in H. destruct k as [|k0 k']; [eapply IH; eauto|].
  destruct (key_has_blank (k0 :: k')); [discriminate|].
  destruct (negb (valid_value v)); [discriminate|].
  destruct (ci_compare (k0 :: k') bytestr_StrContentLength).
  - change (Z.eqb (-1) (-1)) with true in H. cbv iota in H. eapply IH; eauto.
  - destruct (ci_compare (k0 :: k') bytestr_StrTransferEncoding).
    + destruct (bs_eqb v bytestr_StrIdentity); eapply IH; eauto.
    + eapply IH; eauto.
Qed.

Theorem transfer_encoding_wins : forall fs st c e,
  frame_of fs st = inl (c, e) -> existsb is_te_chunked fs = true ->
  (forall kv, In kv fs -> fst kv <> []) -> c = (-1)%Z.
Proof.
  induction fs as [|[k v] fs IH]; intros st c e H Ex Ne; cbn [existsb] in Ex; [discriminate|].
  cbn [frame_of] in H. destruct (frame_step st (k, v)) as [st'|] eqn:S; [|discriminate].
  apply orb_true_iff in Ex as [Ex|Ex].
  - (* this field is the Transfer-Encoding *)
    unfold is_te_chunked in Ex. cbn [fst snd] in Ex. apply andb_true_iff in Ex as [T1 T2]. apply negb_true_iff in T2.
    unfold frame_step in S. destruct st as [cl er].
    destruct k as [|k0 k']; [exfalso; apply (Ne ([], v)); [left; reflexivity|reflexivity]|].
    destruct (key_has_blank (k0 :: k')); [discriminate|].
    destruct (negb (valid_value v)); [discriminate|].
    destruct (ci_compare (k0 :: k') bytestr_StrContentLength) eqn:CL.
    + (* a name cannot be both *)
      exfalso. clear -CL T1.
      assert (L : length (k0 :: k') = length bytestr_StrContentLength /\ length (k0 :: k') = length bytestr_StrTransferEncoding).
      { split; [apply ci_compare_length in CL|apply ci_compare_length in T1]; assumption. }
      destruct L as [A B]. rewrite A in B. vm_compute in B. discriminate.
    + rewrite T1, T2 in S. inversion S; subst. eapply chunked_is_absorbing; eauto.
  - eapply IH; eauto. intros kv Hin. apply Ne. right. exact Hin.
Qed.
