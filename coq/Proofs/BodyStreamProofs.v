(* C14 proofs for the fixed-length body stream: prefix, EOF exactly at the end, no over-read,
   resynchronisation after skipRest — for every body, every read program, every availability. *)
From Coq Require Import String.
From Coq Require Import List Strings.Byte NArith ZArith Bool Arith Lia.
Require Import Bytes Show Tables BodyStream.
Import ListNotations.

(* T = everything on the connection from the first body byte on: prefetched bytes, then the wire *)
Definition slice (T : bs) (a b : nat) : bs := firstn (b - a) (skipn a T).

Lemma slice_nil T a : slice T a a = [].
Proof. unfold slice. rewrite Nat.sub_diag. reflexivity. Qed.

Lemma skipn_add (T : bs) a b : skipn (a + b) T = skipn b (skipn a T).
Proof. revert T; induction a as [|a IH]; intros T; simpl; [reflexivity|]. destruct T; [destruct b; reflexivity|]. apply IH. Qed.

Lemma firstn_add (T : bs) a b : firstn (a + b) T = firstn a T ++ firstn b (skipn a T).
Proof.
  revert T; induction a as [|a IH]; intros T; simpl; [reflexivity|]. destruct T; [destruct b; reflexivity|].
  simpl. f_equal. apply IH.
Qed.

Lemma slice_app T a b c : a <= b -> b <= c -> slice T a c = slice T a b ++ slice T b c.
Proof.
  intros H1 H2. unfold slice. replace (c - a) with ((b - a) + (c - b)) by lia.
  rewrite firstn_add. f_equal. rewrite <- skipn_add. f_equal. f_equal. lia.
Qed.

Lemma slice_of_prefix T p o n : o + n <= p -> firstn n (skipn o (firstn p T)) = slice T o (o + n).
Proof.
  intros H. unfold slice. replace (o + n - o) with n by lia.
  revert T p H; induction o as [|o IH]; intros T p H; simpl.
  - rewrite firstn_firstn. f_equal. lia.
  - destruct p; [lia|]. destruct T; simpl; [destruct n; reflexivity|]. apply IH. lia.
Qed.

Record inv (T : bs) (s : bstream) : Prop := {
  i_pre : length (pre s) <= clen s;
  i_len : clen s <= length T;
  i_off : offset s <= clen s;
  i_pfx : pre s = firstn (length (pre s)) T;
  i_wire : wire s = skipn (Nat.max (offset s) (length (pre s))) T
}.

Definition ok_err (e : rerror) : Prop := e <> RErr.

(* one read delivers exactly the next bytes of the message and nothing beyond it *)
Lemma read_step T k a s : inv T s -> 0 < k ->
  let '(b, e, s') := bs_read k a s in
  e <> RErr /\ inv T s' /\ clen s' = clen s /\ pre s' = pre s /\
  offset s <= offset s' /\ b = slice T (offset s) (offset s') /\
  (e = REOF <-> offset s' = clen s).
Proof.
  intros I Hk. destruct I as [Ip Il Io Ix Iw]. unfold bs_read.
  destruct (offset s =? clen s) eqn:E0.
  { apply Nat.eqb_eq in E0. repeat split; auto; try discriminate. rewrite slice_nil. reflexivity. }
  apply Nat.eqb_neq in E0.
  destruct (offset s <? length (pre s)) eqn:Lp.
  - (* some prefetched bytes are left *)
    apply Nat.ltb_lt in Lp. set (n := Nat.min k (length (pre s) - offset s)).
    assert (Hn : 0 < n /\ n <= k /\ offset s + n <= length (pre s)) by (unfold n; lia).
    assert (Hb : firstn n (skipn (offset s) (pre s)) = slice T (offset s) (offset s + n)).
    { rewrite Ix at 1. apply slice_of_prefix. lia. }
    cbn [offset clen pre wire].
    assert (Z : (0 <? n) = true) by (apply Nat.ltb_lt; lia). rewrite Z. cbn [andb].
    destruct (offset s + n =? clen s) eqn:C1.
    { apply Nat.eqb_eq in C1. repeat split; cbn [offset clen pre wire]; auto; try discriminate; try lia.
      all: try (rewrite Iw; f_equal; lia). }
    apply Nat.eqb_neq in C1.
    destruct (k =? n) eqn:C2.
    { apply Nat.eqb_eq in C2. repeat split; cbn [offset clen pre wire]; auto; try discriminate; try lia.
      all: try (rewrite Iw; f_equal; lia).
      all: try (intros X; (discriminate || lia)). }
    apply Nat.eqb_neq in C2.
    (* the buffer is larger than what was prefetched: continue on the wire *)
    assert (Hall : offset s + n = length (pre s)) by (unfold n in *; lia).
    assert (Hw : wire s = skipn (offset s + n) T) by (rewrite Iw; f_equal; lia).
    assert (Hwl : 0 < length (wire s)) by (rewrite Hw, skipn_length; lia).
    destruct (wire s) as [|x ws] eqn:Wi; [simpl in Hwl; lia|]. rewrite <- Wi in *. clear Wi.
    set (m := Nat.min (k - n) (clen s - (offset s + n))).
    set (j := Nat.min (Nat.min m (Nat.max 1 a)) (length (wire s))).
    assert (Hj : 0 < j /\ offset s + n + j <= clen s /\ j <= length (wire s)) by (unfold j, m; lia).
    assert (Hbj : firstn j (wire s) = slice T (offset s + n) (offset s + n + j)).
    { rewrite Hw. unfold slice. f_equal. lia. }
    repeat split; cbn [offset clen pre wire]; auto; try lia.
    + destruct (offset s + n + j =? clen s); discriminate.
    + rewrite Hw, <- skipn_add. f_equal. lia.
    + rewrite Hb, Hbj. symmetry. apply slice_app; lia.
    + intros X. destruct (offset s + n + j =? clen s) eqn:Q; [apply Nat.eqb_eq in Q; exact Q | discriminate].
    + intros X. apply Nat.eqb_eq in X. rewrite X. reflexivity.
  - (* only the wire *)
    apply Nat.ltb_ge in Lp. cbn [offset clen pre wire]. rewrite Nat.add_0_r. cbn [Nat.ltb Nat.leb andb].
    assert (Hw : wire s = skipn (offset s) T) by (rewrite Iw; f_equal; lia).
    assert (Hwl : 0 < length (wire s)) by (rewrite Hw, skipn_length; lia).
    destruct (wire s) as [|x ws] eqn:Wi; [simpl in Hwl; lia|]. rewrite <- Wi in *. clear Wi.
    rewrite Nat.sub_0_r.
    set (m := Nat.min k (clen s - offset s)).
    set (j := Nat.min (Nat.min m (Nat.max 1 a)) (length (wire s))).
    assert (Hj : 0 < j /\ offset s + j <= clen s /\ j <= length (wire s)) by (unfold j, m; lia).
    repeat split; cbn [offset clen pre wire firstn app]; auto; try lia.
    + destruct (offset s + j =? clen s); discriminate.
    + rewrite Hw, <- skipn_add. f_equal. lia.
    + rewrite Hw. unfold slice. f_equal. lia.
    + intros X. destruct (offset s + j =? clen s) eqn:Q; [apply Nat.eqb_eq in Q; exact Q | discriminate].
    + intros X. apply Nat.eqb_eq in X. rewrite X. reflexivity.
Qed.

(* a whole consumption program *)
Lemma reads_prefix : forall prog T s b eof s', inv T s -> run_reads prog s = (b, eof, s') ->
  inv T s' /\ clen s' = clen s /\ pre s' = pre s /\ offset s <= offset s' /\
  b = slice T (offset s) (offset s') /\ (eof = true -> offset s' = clen s).
Proof.
  induction prog as [|[k a] rest IH]; intros T s b eof s' I H; cbn [run_reads] in H.
  - inversion H; subst. split; [exact I|]. split; [reflexivity|]. split; [reflexivity|]. split; [apply le_n|].
    split; [rewrite slice_nil; reflexivity | discriminate].
  - destruct k as [|k].
    + apply IH; assumption.
    + pose proof (read_step T (S k) a s I ltac:(lia)) as R.
      destruct (bs_read (S k) a s) as [[b1 e1] s1].
      destruct R as (Re & I1 & C1 & P1 & O1 & B1 & E1).
      destruct e1.
      * destruct (run_reads rest s1) as [[b2 eof2] s2] eqn:RR.
        inversion H; subst b eof s'.
        destruct (IH T s1 b2 eof2 s2 I1 RR) as (I2 & C2 & P2 & O2 & B2 & E2).
        split; [exact I2|]. split; [congruence|]. split; [congruence|]. split; [lia|].
        split; [subst b1 b2; symmetry; apply slice_app; lia|].
        intros X. rewrite (E2 X). exact C1.
      * inversion H; subst b eof s'. split; [exact I1|]. split; [exact C1|]. split; [exact P1|]. split; [exact O1|].
        split; [exact B1|]. intros _. apply E1. reflexivity.
      * congruence.
Qed.

(* after the handler returned, skipRest leaves the connection exactly at the end of the message *)
Lemma skip_rest_resync T s : inv T s -> wire (skip_rest s) = skipn (clen s) T.
Proof.
  intros [Ip Il Io Ix Iw]. unfold skip_rest.
  destruct ((clen s <=? length (pre s)) || (offset s =? clen s)) eqn:C.
  - rewrite Iw. f_equal. apply orb_true_iff in C as [C|C]; [apply Nat.leb_le in C | apply Nat.eqb_eq in C]; lia.
  - apply orb_false_iff in C as [C1 C2]. apply Nat.leb_gt in C1. apply Nat.eqb_neq in C2.
    cbn [wire]. rewrite Iw, <- skipn_add. f_equal.
    destruct (length (pre s) <? offset s) eqn:L; [apply Nat.ltb_lt in L | apply Nat.ltb_ge in L]; lia.
Qed.

(* a fresh stream over prefetched bytes and wire *)
Definition fresh (n : nat) (p w : bs) : bstream := {| offset := 0; clen := n; pre := p; wire := w |}.

Lemma fresh_inv n p w : length p <= n -> n <= length (p ++ w) -> inv (p ++ w) (fresh n p w).
Proof.
  intros H1 H2. constructor; cbn [offset clen pre wire fresh]; auto; try lia.
  - rewrite firstn_app, Nat.sub_diag, firstn_all. simpl. rewrite app_nil_r. reflexivity.
  - rewrite Nat.max_0_l, skipn_app, skipn_all, Nat.sub_diag. reflexivity.
Qed.

Theorem stream_correct : forall n p w prog b eof s',
  length p <= n -> n <= length (p ++ w) ->
  run_reads prog (fresh n p w) = (b, eof, s') ->
  let T := p ++ w in
  b = firstn (offset s') (firstn n T)                  (* the bytes read are a prefix of the body *)
  /\ offset s' <= n
  /\ (eof = true -> offset s' = n)                     (* EOF only at the end of the body *)
  /\ wire s' = skipn (Nat.max (offset s') (length p)) T   (* nothing beyond what was delivered left the wire *)
  /\ wire (skip_rest s') = skipn n T.                  (* after release: exactly the end of the message *)
Proof.
  intros n p w prog b eof s' H1 H2 R T.
  destruct (reads_prefix prog T _ _ _ _ (fresh_inv n p w H1 H2) R) as (I & C & P & O & B & E).
  cbn [fresh offset clen pre] in *.
  destruct I as [Ip Il Io Ix Iw]. rewrite C in *. rewrite P in *.
  repeat split; auto.
  - rewrite B. unfold slice. rewrite Nat.sub_0_r. simpl. rewrite firstn_firstn. f_equal. lia.
  - rewrite <- C. apply (skip_rest_resync T). constructor; auto; try lia; rewrite ?C, ?P; auto.
Qed.
