From Coq Require Import String.
From Coq Require Import List Strings.Byte NArith Lia Bool Arith.
Require Import Bytes Show Tables Codec Norm Seg Norm2 Norm3.
Import ListNotations.


(* bytes.LastIndexByte, in a proof-friendly form *)

Lemma rindex_nosl g : nosl g -> rindex sl g = None.
Proof.
  induction g as [|x g IH]; simpl; intros N; auto.
  rewrite IH by (intros H; apply N; right; exact H).
  assert (Byte.eqb x sl = false) as ->; auto.
  apply beqb_neq. intros ->. apply N. left; reflexivity.
Qed.

Lemma rindex_app c a b : rindex c (a ++ b) = match rindex c b with Some k => Some (length a + k) | None => rindex c a end.
Proof.
  induction a as [|x a IH]; simpl.
  - destruct (rindex c b); reflexivity.
  - rewrite IH. destruct (rindex c b); auto.
Qed.

(* last slash of a rendered list = start of its last segment *)
Lemma rindex_render a g : nosl g -> rindex sl (render (a ++ [g])) = Some (length (render a)).
Proof.
  intros N. rewrite render_app, rindex_app. simpl. rewrite app_nil_r, (rindex_nosl g N).
  change (Byte.eqb sl sl) with true. cbv iota. f_equal. lia.
Qed.


(* removing ".." at index i together with its predecessor (if any) *)
Definition drop_pair {A} (i : nat) (gs : list A) : list A := firstn (i - 1) gs ++ skipn (S i) gs.

Lemma firstn_snoc {A} i (l : list A) : 0 < i -> i <= length l ->
  exists a g, firstn i l = a ++ [g] /\ a = firstn (i - 1) l.
Proof.
  intros Hi Hl. destruct i as [|i]; [lia|]. simpl. rewrite Nat.sub_0_r.
  assert (exists g, nth_error l i = Some g) as [g Hg].
  { destruct (nth_error l i) eqn:E; eauto. apply nth_error_None in E. lia. }
  exists (firstn i l), g. split; auto.
  clear Hi. revert l Hl Hg. induction i as [|i IH]; intros l Hl Hg.
  - destruct l; simpl in *; [discriminate|]. inversion Hg; subst. reflexivity.
  - destruct l as [|x l]; simpl in *; [discriminate|]. f_equal. apply IH; auto. lia.
Qed.

Lemma cut_pair gs i rest : Forall nosl gs ->
  skipn i gs = dd :: rest ->
  let n := offset gs i in
  let nn := match rindex sl (firstn n (render gs)) with Some k => k | None => 0 end in
  firstn nn (render gs) ++ skipn (n + 3) (render gs) = render (drop_pair i gs).
Proof.
  intros F H n nn. unfold drop_pair. rewrite render_app.
  assert (Hs : skipn (n + 3) (render gs) = render (skipn (S i) gs)).
  { unfold n. rewrite (skipn_S_cons _ _ _ _ H). rewrite skipn_add, skipn_offset, H. reflexivity. }
  rewrite Hs. f_equal.
  unfold nn, n. rewrite firstn_offset.
  destruct i as [|i].
  - simpl. reflexivity.
  - assert (Hlen : S i <= length gs).
    { assert (length gs = length (firstn (S i) gs) + length (skipn (S i) gs)) by (rewrite <- app_length, firstn_skipn; reflexivity).
      destruct (le_lt_dec (S i) (length gs)); auto.
      rewrite skipn_all2 in H by lia. discriminate. }
    destruct (firstn_snoc (S i) gs) as (a & g & E1 & E2); [lia|auto|].
    rewrite E1. rewrite rindex_render.
    2:{ pose proof (Forall_firstn _ (S i) _ F) as X. rewrite E1 in X. apply Forall_app in X as [_ X]. inversion X; auto. }
    subst a. replace (S i - 1) with i by lia.
    replace (length (render (firstn i gs))) with (offset gs i) by reflexivity.
    apply firstn_offset.
Qed.

Lemma drop_pair_length {A} i (l : list A) x r : skipn i l = x :: r -> length (drop_pair i l) < length l.
Proof.
  intros H. unfold drop_pair. rewrite app_length, (skipn_S_cons _ _ _ _ H).
  assert (E : length l = length (firstn i l) + length (skipn i l)) by (rewrite <- app_length, firstn_skipn; reflexivity).
  rewrite H in E. simpl in E. rewrite firstn_length. rewrite firstn_length in E. lia.
Qed.

Theorem loop3_segments : forall fuel gs, Forall nosl gs -> length gs < fuel ->
  exists gs', loop3 fuel (render gs) = Some (render gs') /\ Forall nosl gs' /\
              first_nonlast dd gs' = None /\ length gs' <= length gs.
Proof.
  induction fuel as [|f IH]; intros gs F L; [lia|]. cbn [loop3].
  unfold pSDDS. rewrite (find_sub_render dd gs nosl_dd F).
  destruct (first_nonlast dd gs) as [i|] eqn:E; cbn [option_map].
  - destruct (first_nonlast_some _ _ _ E) as (rest & Hs & Hne).
    rewrite (cut_pair gs i rest F Hs).
    pose proof (drop_pair_length _ _ _ _ Hs) as DL.
    destruct (IH (drop_pair i gs)) as (gs' & A & B & N & Len).
    + unfold drop_pair. apply Forall_app. split; [apply Forall_firstn | apply Forall_skipn]; auto.
    + lia.
    + exists gs'. repeat split; auto. lia.
  - exists gs. repeat split; auto.
Qed.
Print Assumptions loop3_segments.
