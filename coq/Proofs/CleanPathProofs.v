(* C07, second clause: utils.CleanPath returns a contained path for every input (and its loop
   terminates within length+1 iterations). *)
From Coq Require Import String.
From Coq Require Import List Strings.Byte NArith Bool Arith Lia.
Require Import Bytes Show Tables Codec Norm CleanPath Seg NormTop.
Import ListNotations.

Definition good (g : bs) : Prop := g <> [] /\ nosl g /\ g <> [dot] /\ g <> [dot; dot].

(* the written prefix is "/" or a rendering of good segments *)
Definition wfout (out : bs) : Prop := out = [sl] \/ exists gs, gs <> [] /\ out = render gs /\ Forall good gs.

Lemma render_snoc gs g : render (gs ++ [g]) = render gs ++ sl :: g.
Proof. induction gs as [|x gs IH]; cbn [app render]; [rewrite app_nil_r; reflexivity|]. rewrite IH, <- app_assoc. reflexivity. Qed.

Lemma render_length_pos gs : gs <> [] -> 1 <= length (render gs).
Proof. destruct gs; [congruence|]. cbn. lia. Qed.

(* the first path element of p, and what follows it *)
Fixpoint tseg (s : bs) : bs := match s with [] => [] | x :: r => if Byte.eqb x sl then [] else x :: tseg r end.
Fixpoint dseg (s : bs) : bs := match s with [] => [] | x :: r => if Byte.eqb x sl then s else dseg r end.

Lemma copy_elem_spec : forall p out, copy_elem p out = (out ++ tseg p, dseg p).
Proof.
  induction p as [|c r IH]; intros out; cbn [copy_elem tseg dseg].
  - rewrite app_nil_r. reflexivity.
  - destruct (Byte.eqb c sl); [rewrite app_nil_r; reflexivity|]. rewrite IH, <- app_assoc. reflexivity.
Qed.

Lemma tseg_nosl p : nosl (tseg p).
Proof.
  unfold nosl. induction p as [|c r IH]; cbn [tseg]; [tauto|].
  destruct (Byte.eqb c sl) eqn:E; [cbn; tauto|]. intros [H|H]; [subst; rewrite beqb_refl in E; discriminate|tauto].
Qed.
Lemma dseg_length p : length (dseg p) <= length p.
Proof. induction p as [|c r IH]; cbn [dseg length]; [lia|]. destruct (Byte.eqb c sl); cbn [length]; lia. Qed.

(* appending an element to the written prefix *)
Lemma elem_default_spec p out : wfout out -> good (tseg p) ->
  let '(out', p') := elem_default p out in wfout out' /\ p' = dseg p.
Proof.
  intros W G. unfold elem_default. rewrite copy_elem_spec. split; [|reflexivity].
  destruct W as [->|(gs & Ng & -> & F)].
  - cbn [length Nat.ltb Nat.leb app]. right. exists [tseg p]. split; [discriminate|]. split; [cbn; rewrite app_nil_r; reflexivity|].
    constructor; [exact G|constructor].
  - assert (L : (1 <? length (render gs)) = true).
    { apply Nat.ltb_lt. destruct gs as [|g gs']; [congruence|]. inversion F as [|? ? Gg _]; subst.
      destruct Gg as (Ne & _). destruct g; [congruence|]. cbn. lia. }
    rewrite L. right. exists (gs ++ [tseg p]). split; [destruct gs; discriminate|]. split.
    + rewrite render_snoc, <- app_assoc. reflexivity.
    + apply Forall_app. split; [exact F|constructor; [exact G|constructor]].
Qed.

(* dropping the last element *)
Lemma back_loop_seg : forall g X fuel c, nosl g -> length g + 2 <= fuel -> c <> sl ->
  back_loop fuel (X ++ sl :: g) c = match X with [] => [sl] | _ => X end.
Proof.
  intros g. induction g as [|d g' IH] using rev_ind; intros X fuel c Hn Hf Hc.
  - destruct fuel as [|f]; [lia|]. cbn [back_loop].
    assert (Ec : negb (Byte.eqb c sl) = true) by (apply negb_true_iff, beqb_neq; exact Hc).
    rewrite Ec, andb_true_r. destruct X as [|x X'].
    + reflexivity.
    + assert (L : (1 <? length ((x :: X') ++ [sl])) = true) by (apply Nat.ltb_lt; rewrite app_length; cbn; lia).
      rewrite L. rewrite removelast_last, last_last.
      destruct f as [|f']; [lia|]. cbn [back_loop]. rewrite beqb_refl. cbn [negb]. rewrite andb_false_r. reflexivity.
  - destruct fuel as [|f]; [lia|]. cbn [back_loop].
    assert (Ec : negb (Byte.eqb c sl) = true) by (apply negb_true_iff, beqb_neq; exact Hc).
    assert (L : (1 <? length (X ++ sl :: g' ++ [d])) = true).
    { apply Nat.ltb_lt. repeat (rewrite app_length || cbn [length]). lia. }
    rewrite Ec, L. cbn [andb].
    replace (X ++ sl :: g' ++ [d]) with ((X ++ sl :: g') ++ [d]) by (rewrite <- app_assoc; reflexivity).
    rewrite removelast_last, last_last. apply IH.
    + intros H. apply Hn. apply in_or_app. left. exact H.
    + rewrite app_length in Hf. cbn in Hf. lia.
    + intros E. subst d. apply Hn. apply in_or_app. right. left. reflexivity.
Qed.

Lemma backtrack_spec X g : nosl g -> g <> [] ->
  backtrack (X ++ sl :: g) = match X with [] => [sl] | _ => X end.
Proof.
  intros Hn Ng. unfold backtrack.
  assert (L : (1 <? length (X ++ sl :: g)) = true).
  { apply Nat.ltb_lt. rewrite app_length. destruct g; [congruence|]. cbn. lia. }
  rewrite L. destruct (exists_last Ng) as (g' & d & ->).
  replace (X ++ sl :: g' ++ [d]) with ((X ++ sl :: g') ++ [d]) by (rewrite <- app_assoc; reflexivity).
  rewrite removelast_last, last_last. apply back_loop_seg.
  - intros H. apply Hn. apply in_or_app. left. exact H.
  - repeat (rewrite app_length || cbn [length]). lia.
  - intros E. subst d. apply Hn. apply in_or_app. right. left. reflexivity.
Qed.

Lemma backtrack_wf out : wfout out -> wfout (backtrack out).
Proof.
  intros [->|(gs & Ng & -> & F)]; [left; reflexivity|].
  destruct (exists_last Ng) as (gs' & g & ->). rewrite render_snoc.
  apply Forall_app in F as [F1 F2]. inversion F2 as [|? ? (Ne & Hn & _) _]; subst.
  rewrite backtrack_spec by assumption.
  destruct (render gs') eqn:R.
  - left. reflexivity.
  - right. exists gs'. split; [intros E; subst; discriminate|]. split; [symmetry; exact R|exact F1].
Qed.

(* an element that does not start with '/' and is not "." or ".." is good *)
Lemma tseg_cons c r : Byte.eqb c sl = false -> tseg (c :: r) = c :: tseg r.
Proof. intros E. cbn [tseg]. rewrite E. reflexivity. Qed.

(* the loop keeps the written prefix well-formed and ends within its fuel *)
Lemma clean_loop_wf : forall fuel p out tr, length p < fuel -> wfout out ->
  exists out' tr', clean_loop fuel p out tr = Some (out', tr') /\ wfout out'.
Proof.
  induction fuel as [|f IH]; intros p out tr L W; [lia|]. cbn [clean_loop].
  destruct p as [|c r]; [eauto|].
  destruct (Byte.eqb c sl) eqn:Es; [apply IH; [cbn in L; lia|exact W]|].
  (* the default step: copy the element *)
  assert (DF : good (tseg (c :: r)) ->
          exists out' tr', (let (out'0, p') := elem_default (c :: r) out in clean_loop f p' out'0 tr) = Some (out', tr') /\ wfout out').
  { intros G. pose proof (elem_default_spec (c :: r) out W G) as E.
    destruct (elem_default (c :: r) out) as [o' p']. destruct E as [Wo ->].
    apply IH; [|exact Wo]. pose proof (dseg_length r). cbn [dseg]. rewrite Es. cbn [length] in *. lia. }
  assert (Ns : nosl (tseg (c :: r))) by apply tseg_nosl.
  rewrite (tseg_cons c r Es) in *.
  destruct (Byte.eqb c dot) eqn:Ed.
  - apply beqb_eq in Ed. subst c.
    destruct r as [|c2 r2]; [apply IH; [cbn in L |- *; lia|exact W]|].
    destruct (Byte.eqb c2 sl) eqn:E2; [apply IH; [cbn in L |- *; lia|exact W]|].
    destruct (Byte.eqb c2 dot) eqn:E3.
    + apply beqb_eq in E3. subst c2.
      destruct r2 as [|c3 r3].
      * cbn [andb tl]. apply IH; [cbn in L |- *; lia|apply backtrack_wf; exact W].
      * destruct (Byte.eqb c3 sl) eqn:E4.
        -- cbn [andb tl]. apply IH; [cbn in L |- *; lia|apply backtrack_wf; exact W].
        -- cbn [andb]. apply DF. rewrite (tseg_cons dot (c3 :: r3) E2), (tseg_cons c3 r3 E4) in *.
           repeat split; auto; discriminate.
    + cbn [andb]. apply DF. rewrite (tseg_cons c2 r2 E2) in *.
      repeat split; auto; try discriminate.
      intros K. inversion K; subst. rewrite beqb_refl in E3. discriminate.
  - apply DF. repeat split; auto; try discriminate.
    + intros K. inversion K; subst. rewrite beqb_refl in Ed. discriminate.
    + intros K. inversion K; subst. rewrite beqb_refl in Ed. discriminate.
Qed.

Lemma good_contained_segments gs : Forall good gs ->
  forall i g, nth_error gs i = Some g -> g <> dd /\ g <> [] /\ g <> [x2e] /\ nosl g.
Proof.
  intros F i g H. apply nth_error_In in H. rewrite Forall_forall in F. destruct (F g H) as (A & B & C & D).
  repeat split; auto.
Qed.

Lemma contained_root : contained [sl].
Proof.
  exists [[]]. split; [reflexivity|]. split; [constructor; [intros []|constructor]|]. split; [discriminate|].
  intros i g H. destruct i as [|i]; [|destruct i; discriminate]. cbn in H. inversion H; subst.
  split; [discriminate|]. cbn. intros K. lia.
Qed.

Lemma contained_good gs : gs <> [] -> Forall good gs -> contained (render gs).
Proof.
  intros Ng F. exists gs. split; [reflexivity|]. split.
  - rewrite Forall_forall in *. intros g Hg. apply (F g Hg).
  - split; [exact Ng|]. intros i g Hn. destruct (good_contained_segments gs F i g Hn) as (A & B & C & D). split; auto.
Qed.

Lemma contained_good_trailing gs : gs <> [] -> Forall good gs -> contained (render gs ++ [sl]).
Proof.
  intros Ng F. exists (gs ++ [[]]). split; [rewrite render_snoc; reflexivity|]. split.
  - apply Forall_app. split; [|constructor; [intros []|constructor]].
    rewrite Forall_forall in *. intros g Hg. apply (F g Hg).
  - split; [destruct gs; discriminate|].
    intros i g Hn. destruct (lt_dec i (length gs)) as [Li|Li].
    + rewrite nth_error_app1 in Hn by exact Li.
      destruct (good_contained_segments gs F i g Hn) as (A & B & C & D). split; auto.
    + rewrite nth_error_app2 in Hn by lia. destruct (i - length gs) as [|k] eqn:K; [|destruct k; discriminate].
      cbn in Hn. inversion Hn; subst. split; [discriminate|]. intros Hl. rewrite app_length in Hl. cbn in Hl. lia.
Qed.

(* CleanPath returns a contained path for every input *)
Theorem clean_path_contained : forall p, exists q, clean_path p = Some q /\ contained q.
Proof.
  intros p. unfold clean_path. destruct p as [|c r].
  - exists [sl]. split; [reflexivity|apply contained_root].
  - set (rest := if Byte.eqb c sl then r else c :: r).
    assert (Lr : length rest < S (length (c :: r))) by (unfold rest; destruct (Byte.eqb c sl); cbn; lia).
    destruct (clean_loop_wf (S (length (c :: r))) rest [sl] ((1 <? length (c :: r)) && Byte.eqb (last (c :: r) x00) sl) Lr (or_introl eq_refl))
      as (out & tr & E & W).
    rewrite E. eexists. split; [reflexivity|].
    destruct W as [->|(gs & Ng & -> & F)].
    + cbn [length Nat.ltb Nat.leb]. rewrite andb_false_r. apply contained_root.
    + destruct (tr && (1 <? length (render gs))); [apply contained_good_trailing|apply contained_good]; auto.
Qed.
