(* C20 proofs: the rotation loop terminates and yields the unique precedence tree. *)
From Coq Require Import String.
From Coq Require Import List Arith Lia Bool ZArith Strings.Byte.
Require Import Bytes Show Tables Rot.
Import ListNotations.

(* in-order token sequence; groups are single tokens carrying their own sequence *)
Inductive tok := TA (a : nat) | TO (p o : nat) | TG (ts : list tok).
Fixpoint inorder (t : tree) : list tok :=
  match t with
  | Leaf a => [TA a]
  | Grp g => [TG (inorder g)]
  | Node p o l r => inorder l ++ TO p o :: inorder r
  end.

(* all operator priorities in a tree (not descending into groups) are < top, as in getPriority *)
Fixpoint ops_lt_top (t : tree) : Prop :=
  match t with
  | Leaf _ => True
  | Grp g => ops_lt_top g
  | Node p _ l r => p < top /\ ops_lt_top l /\ ops_lt_top r
  end.

(* every operator node strictly inside t (same scope) has priority > q *)
Fixpoint all_gt (q : nat) (t : tree) : Prop :=
  match t with
  | Node p _ l r => q < p /\ all_gt q l /\ all_gt q r
  | _ => True
  end.

(* R*: right subtree entirely of higher priority; L: left root not lower *)
Fixpoint Rstar (t : tree) : Prop :=
  match t with
  | Leaf _ => True
  | Grp g => Rstar g
  | Node p _ l r => all_gt p r /\ Rstar l /\ Rstar r
  end.

Fixpoint Lok (t : tree) : Prop :=
  match t with
  | Leaf _ => True
  | Grp g => Lok g
  | Node p _ l r => p <= rp l /\ Lok l /\ Lok r
  end.

Lemma pass_inorder t : inorder (fst (pass t)) = inorder t.
Proof.
  induction t as [a|g IH|p o l IHl r IHr]; simpl; auto.
  - destruct (pass g); simpl in *. congruence.
  - destruct (pass l) as [l' cl], (pass r) as [r' cr]; simpl in *.
    rewrite <- IHl, <- IHr.
    destruct l' as [a|g|pl ol ll lr]; simpl; auto.
    destruct (pl <? p); simpl; auto.
    rewrite <- app_assoc. reflexivity.
Qed.

Lemma all_gt_weaken q q' t : q' <= q -> all_gt q t -> all_gt q' t.
Proof. induction t; simpl; intuition; lia. Qed.

Lemma pass_all_gt q t : all_gt q t -> all_gt q (fst (pass t)).
Proof.
  induction t as [a|g IH|p o l IHl r IHr]; simpl; auto.
  - destruct (pass g); simpl; auto.
  - intros (Hq & Hl & Hr). specialize (IHl Hl). specialize (IHr Hr).
    destruct (pass l) as [l' cl], (pass r) as [r' cr]; simpl in *.
    destruct l' as [a|g|pl ol ll lr]; simpl; auto.
    destruct (pl <? p); simpl in *; intuition.
Qed.

Lemma pass_Rstar t : Rstar t -> Rstar (fst (pass t)).
Proof.
  induction t as [a|g IH|p o l IHl r IHr]; simpl; auto.
  - destruct (pass g); simpl; auto.
  - intros (Hr & Rl & Rr). specialize (IHl Rl). specialize (IHr Rr).
    pose proof (pass_all_gt p r Hr) as Hr'.
    destruct (pass l) as [l' cl], (pass r) as [r' cr]; simpl in *.
    destruct l' as [a|g|pl ol ll lr]; simpl; auto.
    destruct (pl <? p) eqn:E; simpl in *; auto.
    apply Nat.ltb_lt in E. destruct IHl as (Hlr & Rll & Rlr).
    repeat split; auto. eapply all_gt_weaken; [|exact Hr']. lia.
Qed.

(* no change => L holds everywhere *)
Lemma pass_nochange t : ops_lt_top t -> snd (pass t) = false -> fst (pass t) = t /\ Lok t.
Proof.
  induction t as [a|g IH|p o l IHl r IHr]; simpl; auto.
  - intros T. destruct (pass g) as [g' c]; simpl in *. intros ->. destruct (IH T eq_refl) as [-> ?]. auto.
  - intros (Tp & Tl & Tr).
    destruct (pass l) as [l' cl], (pass r) as [r' cr]; simpl in *.
    destruct l' as [a|g|pl ol ll lr]; simpl.
    1,2: intros H; apply orb_false_iff in H as [-> ->];
         destruct (IHl Tl eq_refl) as [<- ?], (IHr Tr eq_refl) as [<- ?]; simpl; repeat split; auto; unfold top in *; lia.
    destruct (pl <? p) eqn:E; simpl; [discriminate|].
    intros H; apply orb_false_iff in H as [-> ->].
    destruct (IHl Tl eq_refl) as [<- ?], (IHr Tr eq_refl) as [<- ?]. apply Nat.ltb_ge in E. simpl. auto.
Qed.

(* inversion count: pairs (u, v) with v an operator in the left subtree of u (same scope) and prio u > prio v *)
Lemma pass_cnt q t : cnt_lt q (fst (pass t)) = cnt_lt q t.
Proof.
  induction t as [a|g IH|p o l IHl r IHr]; simpl; auto.
  - destruct (pass g); simpl; auto.
  - destruct (pass l) as [l' cl], (pass r) as [r' cr]; simpl in *.
    destruct l' as [a|g|pl ol ll lr]; simpl in *; try lia.
    destruct (pl <? p); simpl in *; lia.
Qed.

Lemma cnt_all_gt q t : all_gt q t -> forall q', q' <= S q -> cnt_lt q' t = 0.
Proof.
  induction t as [a|g IH|p o l IHl r IHr]; simpl; auto.
  intros (H1 & H2 & H3) q' Hq'. rewrite (IHl H2 q' Hq'), (IHr H3 q' Hq').
  destruct (p <? q') eqn:E; auto. apply Nat.ltb_lt in E. lia.
Qed.

(* a changing pass strictly decreases inv (under R* ), a non-changing one keeps it *)
Lemma pass_inv t : Rstar t ->
  inv (fst (pass t)) + (if snd (pass t) then 1 else 0) <= inv t.
Proof.
  induction t as [a|g IH|p o l IHl r IHr]; simpl; auto.
  - intros R. specialize (IH R). destruct (pass g) as [g' c]; simpl in *. auto.
  - intros (Hr & Rl & Rr). specialize (IHl Rl). specialize (IHr Rr).
    pose proof (pass_cnt p l) as Cl. pose proof (pass_Rstar l Rl) as Rl'.
    destruct (pass l) as [l' cl], (pass r) as [r' cr]; simpl in *.
    destruct l' as [a|g|pl ol ll lr]; simpl in *.
    1,2: destruct cl, cr; simpl in *; lia.
    destruct (pl <? p) eqn:E; simpl in *.
    + destruct cl, cr; simpl in *; lia.
    + rewrite ?E in *. destruct cl, cr; simpl in *; lia.
Qed.

(* ---------- fixpoint iteration ---------- *)
Lemma pass_ops t : ops_lt_top t -> ops_lt_top (fst (pass t)).
Proof.
  induction t as [a|g IH|p o l IHl r IHr]; simpl; auto.
  - destruct (pass g); simpl; auto.
  - intros (Tp & Tl & Tr). specialize (IHl Tl). specialize (IHr Tr).
    destruct (pass l) as [l' cl], (pass r) as [r' cr]; simpl in *.
    destruct l' as [a|g|pl ol ll lr]; simpl in *; auto.
    destruct (pl <? p); simpl in *; intuition.
Qed.

Theorem iter_sorted : forall fuel t t',
  ops_lt_top t -> Rstar t -> iter fuel t = Some t' ->
  inorder t' = inorder t /\ Rstar t' /\ Lok t'.
Proof.
  induction fuel as [|f IH]; simpl; intros t t' T R H; [discriminate|].
  pose proof (pass_inorder t) as I. pose proof (pass_Rstar t R) as R'.
  pose proof (pass_ops t T) as T'. pose proof (pass_nochange t T) as N.
  destruct (pass t) as [t1 c]; simpl in *. destruct c.
  - destruct (IH t1 t' T' R' H) as (A & B & C). repeat split; auto. congruence.
  - inversion H; subst. destruct (N eq_refl) as [-> L]. auto.
Qed.

Theorem iter_terminates : forall fuel t,
  Rstar t -> inv t < fuel -> iter fuel t <> None.
Proof.
  induction fuel as [|f IH]; simpl; intros t R Hf; [lia|].
  pose proof (pass_inv t R) as I. pose proof (pass_Rstar t R) as R'.
  destruct (pass t) as [t1 c]; simpl in *. destruct c; [|discriminate].
  apply IH; auto. lia.
Qed.

(* ---------- uniqueness: a sorted tree is determined by its in-order sequence ---------- *)
Definition tok_ge (q : nat) (k : tok) : Prop := match k with TO p _ => q <= p | _ => True end.
Definition tok_gt (q : nat) (k : tok) : Prop := match k with TO p _ => q < p | _ => True end.

Fixpoint all_ge (q : nat) (t : tree) : Prop :=
  match t with
  | Node p _ l r => q <= p /\ all_ge q l /\ all_ge q r
  | _ => True
  end.

Lemma all_gt_ge q t : all_gt q t -> all_ge q t.
Proof. induction t; simpl; intuition. Qed.
Lemma all_ge_weaken q q' t : q' <= q -> all_ge q t -> all_ge q' t.
Proof. induction t; simpl; intuition; lia. Qed.

Lemma sorted_all_ge t : Rstar t -> Lok t -> all_ge (rp t) t.
Proof.
  induction t as [a|g IH|p o l IHl r IHr]; simpl; auto.
  intros (Hr & Rl & Rr) (Hp & Ll & Lr). repeat split; auto.
  - eapply all_ge_weaken; [exact Hp|]. auto.
  - apply all_gt_ge. auto.
Qed.

Lemma all_ge_inorder q t : all_ge q t -> Forall (tok_ge q) (inorder t).
Proof.
  induction t as [a|g IH|p o l IHl r IHr]; simpl; intros H.
  - repeat constructor.
  - repeat constructor.
  - destruct H as (H1 & H2 & H3). apply Forall_app. split; [auto | constructor; simpl; auto].
Qed.
Lemma all_gt_inorder q t : all_gt q t -> Forall (tok_gt q) (inorder t).
Proof.
  induction t as [a|g IH|p o l IHl r IHr]; simpl; intros H.
  - repeat constructor.
  - repeat constructor.
  - destruct H as (H1 & H2 & H3). apply Forall_app. split; [auto | constructor; simpl; auto].
Qed.

Lemma split_unique : forall l1 l2 p1 o1 p2 o2 r1 r2,
  l1 ++ TO p1 o1 :: r1 = l2 ++ TO p2 o2 :: r2 ->
  Forall (tok_ge p1) l1 -> Forall (tok_gt p1) r1 ->
  Forall (tok_ge p2) l2 -> Forall (tok_gt p2) r2 ->
  l1 = l2 /\ p1 = p2 /\ o1 = o2 /\ r1 = r2.
Proof.
  induction l1 as [|x l1 IH]; intros l2 p1 o1 p2 o2 r1 r2 E G1 R1 G2 R2.
  - destruct l2 as [|y l2]; simpl in E.
    + inversion E; subst. auto.
    + inversion E; subst. exfalso.
      inversion G2 as [|? ? Hy _]; subst. simpl in Hy.
      assert (In (TO p2 o2) (l2 ++ TO p2 o2 :: r2)) by (apply in_or_app; right; left; reflexivity).
      rewrite Forall_forall in R1. specialize (R1 _ H). simpl in R1. lia.
  - destruct l2 as [|y l2]; simpl in E.
    + inversion E; subst. exfalso.
      inversion G1 as [|? ? Hx _]; subst. simpl in Hx.
      assert (In (TO p1 o1) (l1 ++ TO p1 o1 :: r1)) by (apply in_or_app; right; left; reflexivity).
      rewrite Forall_forall in R2. specialize (R2 _ H). simpl in R2. lia.
    + inversion E; subst. inversion G1; inversion G2; subst.
      destruct (IH l2 p1 o1 p2 o2 r1 r2) as (A & B & C & D); auto. subst. auto.
Qed.

Lemma inorder_nonnil t : inorder t <> [].
Proof. destruct t; simpl; try discriminate. destruct (inorder t1); discriminate. Qed.

Lemma inorder_node_len p o l r : 3 <= length (inorder (Node p o l r)).
Proof.
  simpl. rewrite app_length. simpl.
  pose proof (inorder_nonnil l). pose proof (inorder_nonnil r).
  destruct (inorder l); [congruence|]. destruct (inorder r); [congruence|]. simpl. lia.
Qed.

Definition sorted (t : tree) : Prop := Rstar t /\ Lok t.

Theorem sorted_unique : forall t1 t2,
  sorted t1 -> sorted t2 -> inorder t1 = inorder t2 -> t1 = t2.
Proof.
  induction t1 as [a|g IH|p o l IHl r IHr]; intros t2 [R1 L1] [R2 L2] E.
  - destruct t2 as [a2|g2|p2 o2 l2 r2].
    + simpl in E. congruence.
    + simpl in E. discriminate.
    + pose proof (inorder_node_len p2 o2 l2 r2) as H. rewrite <- E in H. simpl in H. lia.
  - destruct t2 as [a2|g2|p2 o2 l2 r2].
    + simpl in E. discriminate.
    + simpl in E. inversion E as [E']. f_equal. apply IH; auto; split; auto.
    + pose proof (inorder_node_len p2 o2 l2 r2) as H. rewrite <- E in H. simpl in H. lia.
  - destruct t2 as [a2|g2|p2 o2 l2 r2].
    + pose proof (inorder_node_len p o l r) as H. rewrite E in H. simpl in H. lia.
    + pose proof (inorder_node_len p o l r) as H. rewrite E in H. simpl in H. lia.
    + simpl in *. destruct R1 as (Hr1 & Rl1 & Rr1), L1 as (Hp1 & Ll1 & Lr1).
      destruct R2 as (Hr2 & Rl2 & Rr2), L2 as (Hp2 & Ll2 & Lr2).
      destruct (split_unique _ _ _ _ _ _ _ _ E) as (A & B & C & D).
      * apply all_ge_inorder. eapply all_ge_weaken; [exact Hp1|]. apply sorted_all_ge; auto.
      * apply all_gt_inorder; auto.
      * apply all_ge_inorder. eapply all_ge_weaken; [exact Hp2|]. apply sorted_all_ge; auto.
      * apply all_gt_inorder; auto.
      * subst. f_equal; [apply IHl | apply IHr]; auto; split; auto.
Qed.

(* ---------- the initial tree built by parseExprNode is a left chain ---------- *)
Fixpoint chain (acc : tree) (rest : list (nat * nat * tree)) : tree :=
  match rest with
  | [] => acc
  | (p, o, x) :: rest' => chain (Node p o acc x) rest'
  end.

Definition operand (t : tree) : Prop := match t with Node _ _ _ _ => False | _ => True end.

(* main theorem: whatever sorted tree has the same token sequence as the left chain,
   the rotation loop returns exactly that tree, and it terminates within inv+1 passes *)
Theorem C20_shape_proto : forall t spec,
  ops_lt_top t -> Rstar t ->
  sorted spec -> inorder spec = inorder t ->
  iter (S (inv t)) t = Some spec.
Proof.
  intros t spec T R Hs E.
  destruct (iter (S (inv t)) t) as [t'|] eqn:H.
  - destruct (iter_sorted _ _ _ T R H) as (A & B & C).
    f_equal. apply sorted_unique; [split; auto | auto | congruence].
  - exfalso. eapply iter_terminates; [exact R | | exact H]. lia.
Qed.



(* ---------- the left chain built by parseExprNode, and the spec ---------- *)
Fixpoint chainlike (t : tree) : Prop :=
  match t with
  | Leaf _ => True
  | Grp g => chainlike g
  | Node _ _ l r => operand r /\ chainlike l /\ chainlike r
  end.

Lemma operand_all_gt q x : operand x -> all_gt q x.
Proof. destruct x; simpl; auto. contradiction. Qed.

Lemma chainlike_Rstar t : chainlike t -> Rstar t.
Proof.
  induction t as [a|g IH|p o l IHl r IHr]; simpl; auto.
  intros (Hop & Hl & Hr). repeat split; auto. apply operand_all_gt; auto.
Qed.

Lemma insert_inorder t p o x : inorder (insert t p o x) = inorder t ++ TO p o :: inorder x.
Proof.
  induction t as [a|g IH|p' o' l IHl r IHr]; simpl; auto.
  destruct (p' <? p); simpl; auto. rewrite IHr, <- app_assoc. reflexivity.
Qed.

Lemma spec_inorder t : inorder (spec t) = inorder t.
Proof.
  induction t as [a|g IH|p o l IHl r IHr]; simpl; auto.
  - rewrite IH. reflexivity.
  - rewrite insert_inorder, IHl, IHr. reflexivity.
Qed.

Lemma insert_all_gt q t p o x : all_gt q t -> q < p -> operand x -> all_gt q (insert t p o x).
Proof.
  induction t as [a|g IH|p' o' l IHl r IHr]; simpl; intros H Hq Hx.
  - repeat split; auto. apply operand_all_gt; auto.
  - repeat split; auto. apply operand_all_gt; auto.
  - destruct H as (H1 & H2 & H3). destruct (p' <? p) eqn:E; simpl.
    + repeat split; auto.
    + repeat split; auto. apply operand_all_gt; auto.
Qed.

Lemma insert_Rstar t p o x : Rstar t -> Rstar x -> operand x -> Rstar (insert t p o x).
Proof.
  induction t as [a|g IH|p' o' l IHl r IHr]; simpl; intros H Hx Hop.
  - repeat split; auto. apply operand_all_gt; auto.
  - repeat split; auto. apply operand_all_gt; auto.
  - destruct H as (H1 & H2 & H3). destruct (p' <? p) eqn:E; simpl.
    + apply Nat.ltb_lt in E. repeat split; auto. apply insert_all_gt; auto.
    + repeat split; auto. apply operand_all_gt; auto.
Qed.

Lemma insert_Lok t p o x : p < top -> Lok t -> Lok x -> Lok (insert t p o x).
Proof.
  induction t as [a|g IH|p' o' l IHl r IHr]; simpl; intros Hp H Hx.
  - repeat split; auto. unfold top in *. lia.
  - repeat split; auto. unfold top in *. lia.
  - destruct H as (H1 & H2 & H3). destruct (p' <? p) eqn:E; simpl.
    + repeat split; auto.
    + apply Nat.ltb_ge in E. repeat split; auto.
Qed.

Lemma spec_operand x : operand x -> operand (spec x).
Proof. destruct x; simpl; auto. intros []. Qed.

Lemma spec_sorted t : chainlike t -> ops_lt_top t -> Rstar (spec t) /\ Lok (spec t).
Proof.
  induction t as [a|g IH|p o l IHl r IHr]; simpl; auto.
  intros (Hop & Hl & Hr) (Hp & Tl & Tr).
  destruct (IHl Hl Tl) as (Rl & Ll). destruct (IHr Hr Tr) as (Rr & Lr).
  split.
  - apply insert_Rstar; auto. apply spec_operand; auto.
  - apply insert_Lok; auto.
Qed.

Theorem sort_is_spec : forall t, chainlike t -> ops_lt_top t ->
  iter (S (inv t)) t = Some (spec t).
Proof.
  intros t C T. apply C20_shape_proto; auto.
  - apply chainlike_Rstar; auto.
  - apply spec_sorted; auto.
  - apply spec_inorder.
Qed.

(* ---------- what parse_chain (parseExprNode) builds is a left chain ---------- *)
Definition table_ok : bool :=
  forallb (fun e : byte * (bs * bs) => prio_of_type (snd (snd e)) <? top) op_table.

Lemma prio_of_op_lt c p : table_ok = true -> prio_of_op c = Some p -> p < top.
Proof.
  unfold table_ok, prio_of_op. intros T. rewrite forallb_forall in T.
  induction op_table as [|[k [sym ty]] l IH]; simpl; [discriminate|].
  destruct (Byte.eqb c k).
  - intros H. inversion H; subst. specialize (T (k, (sym, ty)) (or_introl eq_refl)). simpl in T.
    apply Nat.ltb_lt in T. exact T.
  - apply IH. intros x Hx. apply T. right. exact Hx.
Qed.

Definition good_tree (t : tree) : Prop := chainlike t /\ ops_lt_top t.
Definition good_parser (f : bs -> option (tree * bs)) : Prop :=
  forall s t r, f s = Some (t, r) -> good_tree t.

Lemma operand_with_ok rec : good_parser rec ->
  forall s x r, operand_with rec s = Some (x, r) -> operand x /\ good_tree x.
Proof.
  intros G s x r. unfold operand_with. destruct s as [|c s']; [discriminate|].
  destruct (Byte.eqb c x28).
  - destruct (rec s') as [[g [|c2 r2]]|] eqn:E; try discriminate.
    destruct (Byte.eqb c2 x29); [|discriminate]. intros H. inversion H; subst.
    destruct (G _ _ _ E) as [C T]. repeat split; simpl; auto.
  - destruct (Byte.eqb c x29); [discriminate|].
    destruct (prio_of_op c); [discriminate|]. intros H. inversion H; subst.
    repeat split; simpl; auto.
Qed.

Lemma ops_loop_ok opnd : table_ok = true ->
  (forall s x r, opnd s = Some (x, r) -> operand x /\ good_tree x) ->
  forall k acc s t r, good_tree acc -> ops_loop opnd k acc s = Some (t, r) -> good_tree t.
Proof.
  intros T O. induction k as [|k IH]; intros acc s t r G; simpl; [discriminate|].
  destruct s as [|c s']; [intros H; inversion H; subst; exact G|].
  destruct (prio_of_op c) as [p|] eqn:P; [|intros H; inversion H; subst; exact G].
  destruct (opnd s') as [[x r']|] eqn:E; [|discriminate].
  apply IH. destruct (O _ _ _ E) as [Ox [Cx Tx]]. destruct G as [Ca Ta].
  split; simpl; repeat split; auto. eapply prio_of_op_lt; eauto.
Qed.

Lemma parse_chain_ok : table_ok = true -> forall fuel, good_parser (parse_chain fuel).
Proof.
  intros T. induction fuel as [|f IH]; intros s t r; cbn [parse_chain]; [discriminate|].
  destruct (operand_with (parse_chain f) s) as [[a r0]|] eqn:E; [|discriminate].
  destruct (operand_with_ok _ IH _ _ _ E) as [_ Ga].
  intros H. eapply (ops_loop_ok (operand_with (parse_chain f)) T); [|exact Ga|exact H].
  intros s0 x r1 H0. eapply operand_with_ok; eauto.
Qed.

(* every expression the model parser accepts is sorted into its precedence tree, and the loop
   terminates within inv+1 passes *)
Theorem parsed_sort_is_spec : table_ok = true -> forall s : bs,
  sort_shape s = spec_shape s.
Proof.
  intros T s. unfold sort_shape, spec_shape.
  destruct (parse_chain (S (length s)) s) as [[t [|c r]]|] eqn:E; auto.
  destruct (parse_chain_ok T _ _ _ _ E) as [C O].
  rewrite (sort_is_spec t C O). reflexivity.
Qed.
