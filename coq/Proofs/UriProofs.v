(* C17: parsing the full string form of a URI assembled through the setters gives back its scheme, host, path,
   query string and fragment, and formatting again is a fixed point. *)
From Coq Require Import String.
From Coq Require Import List Strings.Byte NArith Bool Arith Lia.
Require Import Bytes Show Res Tables TrailerKeys Codec CodecProofs Norm Seg NormTop UriSplit Chunk HeaderScanProofs ScanStable Uri.
Import ListNotations.
Local Open Scope nat_scope.

(* ---------- quoting a path ---------- *)
Lemma quotep1_dec : forall c rest, dec false (quotep1 c ++ rest) = c :: dec false rest.
Proof.
  intros c rest.
  assert (H : (if esc_path c then
                 negb (N.eqb (hex2int (upperhex (N.shiftr (n_of c) 4))) 16) &&
                 negb (N.eqb (hex2int (upperhex (N.land (n_of c) 15))) 16) &&
                 Byte.eqb (b_of (N.lor (N.shiftl (hex2int (upperhex (N.shiftr (n_of c) 4))) 4)
                                       (hex2int (upperhex (N.land (n_of c) 15))))) c
               else negb (Byte.eqb c cPct)) = true).
  { revert c. apply forall_byte. vm_compute. reflexivity. }
  unfold quotep1. destruct (esc_path c) eqn:E2.
  - apply andb_true_iff in H as [H H3]. apply andb_true_iff in H as [H1 H2].
    apply negb_true_iff in H1, H2. apply beqb_eq in H3.
    cbn [app dec andb]. change (Byte.eqb cPct cPct) with true. cbv iota.
    rewrite H1, H2. cbn [orb]. rewrite H3. reflexivity.
  - apply negb_true_iff in H. cbn [app dec andb]. rewrite H. reflexivity.
Qed.

Lemma dec_flat_quotep : forall s, dec false (flat_map quotep1 s) = s.
Proof. induction s as [|c s IH]; cbn [flat_map]; [reflexivity|]. rewrite quotep1_dec. f_equal. exact IH. Qed.

Lemma dec_false_fast s : memb cPct s = false -> dec false s = s.
Proof.
  induction s as [|c s IH]; cbn [memb existsb dec]; [reflexivity|]. intros H. apply orb_false_iff in H as [A B].
  assert (Byte.eqb c cPct = false) as -> by (apply beqb_neq; intros ->; rewrite beqb_refl in A; discriminate).
  cbn [andb]. f_equal. apply IH. exact B.
Qed.
Lemma decode_noplus_dec s : decode_noplus s = dec false s.
Proof. unfold decode_noplus. destruct (memb cPct s) eqn:E; cbn [negb]; [reflexivity|]. symmetry. apply dec_false_fast. exact E. Qed.

Lemma quote_path_sl r : quote_path (sl :: r) = flat_map quotep1 (sl :: r).
Proof.
  unfold quote_path. destruct r; [|reflexivity]. replace (Byte.eqb sl cStar) with false by reflexivity.
  cbn [flat_map]. rewrite app_nil_r. reflexivity.
Qed.
Lemma quote_path_starts_sl r : exists t, quote_path (sl :: r) = sl :: t.
Proof. rewrite quote_path_sl. cbn [flat_map]. replace (quotep1 sl) with [sl] by reflexivity. cbn [app]. eauto. Qed.

Definition url_safe (x : byte) : bool := negb (Byte.eqb x QM) && negb (Byte.eqb x HASH) && negb (is_ctl x).
Lemma quotep1_safe c : forallb url_safe (quotep1 c) = true.
Proof. revert c. apply forall_byte. vm_compute. reflexivity. Qed.
Lemma flat_quotep_safe s : forallb url_safe (flat_map quotep1 s) = true.
Proof. induction s as [|c s IH]; cbn [flat_map]; [reflexivity|]. rewrite forallb_app, quotep1_safe, IH. reflexivity. Qed.

Lemma safe_no_byte s c : forallb url_safe s = true -> url_safe c = false -> ~ In c s.
Proof. intros F U K. rewrite forallb_forall in F. rewrite (F c K) in U. discriminate. Qed.
Lemma safe_no_ctl s : forallb url_safe s = true -> has_ctl s = false.
Proof.
  induction s as [|c s IH]; cbn [forallb has_ctl existsb]; [reflexivity|]. intros H. apply andb_true_iff in H as [A B].
  unfold url_safe in A. apply andb_true_iff in A as [_ A]. apply negb_true_iff in A. rewrite A. cbn [orb]. apply IH. exact B.
Qed.

(* ---------- a contained path is a fixed point of the four normalisation loops ---------- *)
Lemma first_nonlast_none X : forall gs, (forall i g, nth_error gs i = Some g -> S i < length gs -> g <> X) -> first_nonlast X gs = None.
Proof.
  induction gs as [|g gs IH]; intros H; cbn [first_nonlast]; [reflexivity|].
  destruct gs as [|g2 gs2].
  - rewrite andb_false_r. reflexivity.
  - destruct (bs_eqb g X) eqn:E.
    + apply bs_eqb_eq in E. exfalso. apply (H 0 g eq_refl); [cbn; lia|exact E].
    + cbn [andb]. rewrite IH; [reflexivity|]. intros i g0 N L. apply (H (S i) g0 N). cbn [length] in *. lia.
Qed.

Lemma render_last : forall gs, gs <> [] -> exists a g, render gs = a ++ sl :: g /\ nth_error gs (length gs - 1) = Some g.
Proof.
  induction gs as [|g gs IH]; intros N; [congruence|]. destruct gs as [|g2 gs2].
  - exists [], g. cbn. rewrite app_nil_r. auto.
  - destruct (IH ltac:(discriminate)) as (a & gl & E & Nn). exists (sl :: g ++ a), gl. split.
    + cbn [render] in *. rewrite E. cbn [app]. rewrite <- app_assoc. reflexivity.
    + cbn [length] in *. replace (S (S (length gs2)) - 1) with (S (S (length gs2) - 1)) by lia. exact Nn.
Qed.

Lemma no_suffix_sdd a g : ~ In sl g -> g <> dd -> has_suffix pSDD (a ++ sl :: g) = false.
Proof.
  intros Ns Nd. unfold has_suffix, pSDD, dd. rewrite rev_app_distr. cbn [rev app].
  destruct (has_prefix _ _) eqn:H; [|reflexivity]. exfalso.
  apply has_prefix_spec in H. destruct H as (t & H). cbn [rev app] in H. rewrite <- app_assoc in H. cbn [app] in H.
  destruct (rev g) as [|x1 [|x2 [|x3 r3]]] eqn:R; cbn [app] in H.
  - inversion H.
  - inversion H.
  - inversion H; subst. apply Nd. rewrite <- (rev_involutive g), R. reflexivity.
  - inversion H; subst. apply Ns. apply in_rev. rewrite R. right. right. left. reflexivity.
Qed.

Lemma contained_normal p : contained p -> normalize_tail p = Some p.
Proof.
  intros (gs & -> & Fn & Ne & Sg). unfold normalize_tail.
  assert (F0 : forall X, nosl X -> (X = [] \/ X = [x2e] \/ X = dd) -> find_sub (pat X) (render gs) = None).
  { intros X NX HX. rewrite (find_sub_render X gs NX Fn). rewrite first_nonlast_none; [reflexivity|].
    intros i g N L. destruct (Sg i g N) as [A B]. destruct HX as [ -> | [ -> | -> ] ]; [apply (B L)|apply (B L)|exact A]. }
  assert (N1 : nosl []) by (intros []).
  assert (N2 : nosl [x2e]) by (intros [K|[]]; discriminate).
  assert (N3 : nosl dd) by (intros [K|[K|[]]]; discriminate).
  cbn [loop1]. change pSS with (pat []). rewrite (F0 [] N1 (or_introl eq_refl)).
  cbn [loop2]. change pSDS with (pat [x2e]). rewrite (F0 _ N2 (or_intror (or_introl eq_refl))).
  cbn [loop3]. change pSDDS with (pat dd). rewrite (F0 _ N3 (or_intror (or_intror eq_refl))).
  f_equal. unfold final. destruct (render_last gs Ne) as (a & g & E & Nn).
  rewrite E, no_suffix_sdd; [reflexivity| |].
  - rewrite Forall_forall in Fn. apply Fn. eapply nth_error_In. exact Nn.
  - apply (Sg _ _ Nn).
Qed.

Lemma contained_starts_sl p : contained p -> exists r, p = sl :: r.
Proof. intros (gs & -> & _ & Ne & _). destruct gs; [congruence|]. cbn. eauto. Qed.

(* ---------- the scheme ---------- *)
Definition scheme_char (c : byte) : bool := is_letter c || is_scheme_rest c.
Definition scheme_ok (s : bs) : Prop :=
  match s with c :: r => is_letter c = true /\ forallb scheme_char r = true | [] => False end.

Lemma scheme_colon_rest : forall r i t, forallb scheme_char r = true -> 0 < i ->
  scheme_colon (r ++ cColon :: t) i = Some (i + length r).
Proof.
  induction r as [|c r IH]; intros i t F P; cbn [app scheme_colon length].
  - replace (is_letter cColon) with false by reflexivity. replace (is_scheme_rest cColon) with false by reflexivity.
    rewrite beqb_refl. f_equal. lia.
  - cbn [forallb] in F. apply andb_true_iff in F as [A B]. unfold scheme_char in A.
    destruct (is_letter c); [rewrite IH by (auto; lia); f_equal; lia|].
    cbn [orb] in A. rewrite A. destruct i; [lia|]. rewrite IH by (auto; lia). f_equal. lia.
Qed.

Lemma scheme_colon_ok s t : scheme_ok s -> scheme_colon (s ++ cColon :: t) 0 = Some (length s).
Proof.
  destruct s as [|c r]; [intros []|]. intros [A B]. cbn [app scheme_colon length]. rewrite A.
  rewrite scheme_colon_rest by (auto; lia). reflexivity.
Qed.

Lemma scheme_chars_safe : forall c, scheme_char c = true -> is_ctl c = false.
Proof.
  assert (H : forall c, implb (scheme_char c) (negb (is_ctl c)) = true) by (apply forall_byte; vm_compute; reflexivity).
  intros c S. specialize (H c). rewrite S in H. cbn in H. apply negb_true_iff in H. exact H.
Qed.
Lemma scheme_no_ctl s : scheme_ok s -> has_ctl s = false.
Proof.
  destruct s as [|c r]; [intros []|]. intros [A B]. cbn [has_ctl existsb].
  rewrite (scheme_chars_safe c) by (unfold scheme_char; rewrite A; reflexivity). cbn [orb].
  induction r as [|x r IH]; [reflexivity|]. cbn [forallb] in B. apply andb_true_iff in B as [B1 B2].
  cbn [existsb]. rewrite (scheme_chars_safe x B1). cbn [orb]. apply IH. exact B2.
Qed.

Lemma has_ctl_app a b : has_ctl (a ++ b) = has_ctl a || has_ctl b.
Proof. unfold has_ctl. apply existsb_app. Qed.

(* ---------- well-formed URIs ---------- *)
Definition wf_uri (u : uri) : Prop :=
  scheme_ok (u_scheme u) /\ lower (u_scheme u) = u_scheme u /\
  lower (u_host u) = u_host u /\ ~ In sl (u_host u) /\ ~ In AT (u_host u) /\ has_ctl (u_host u) = false /\
  u_user u = [] /\ u_pass u = [] /\
  contained (u_path u) /\
  has_ctl (u_query u) = false /\ ~ In HASH (u_query u) /\
  has_ctl (u_hash u) = false.

Lemma index_byte_none' c s : ~ In c s -> index_byte c s = None.
Proof.
  induction s as [|x s IH]; intros H; cbn [index_byte]; [reflexivity|].
  destruct (Byte.eqb x c) eqn:E; [apply beqb_eq in E; subst; exfalso; apply H; left; reflexivity|].
  rewrite IH by (intros K; apply H; right; exact K). reflexivity.
Qed.

Lemma no_ctl_in s c : has_ctl s = false -> is_ctl c = true -> ~ In c s.
Proof.
  intros H C K. unfold has_ctl in H. assert (existsb is_ctl s = true); [|congruence].
  apply existsb_exists. exists c. auto.
Qed.

Lemma split3 (Q q h : bs) : ~ In QM Q -> ~ In HASH Q -> ~ In HASH q ->
  let rest := Q ++ QM :: q ++ HASH :: h in
  index_byte QM rest = Some (length Q) /\ index_byte HASH rest = Some (length Q + 1 + length q) /\
  firstn (length Q) rest = Q /\ firstn (length Q + 1 + length q - S (length Q)) (skipn (S (length Q)) rest) = q /\
  skipn (S (length Q + 1 + length q)) rest = h.
Proof.
  intros NQ NH Nq rest. subst rest. split; [apply index_byte_app; exact NQ|]. split.
  - replace (Q ++ QM :: q ++ HASH :: h) with ((Q ++ QM :: q) ++ HASH :: h) by (rewrite <- app_assoc; reflexivity).
    rewrite index_byte_app.
    + f_equal. rewrite app_length. cbn [length]. lia.
    + intros K. apply in_app_or in K. destruct K as [K|[K|K]]; [exact (NH K)|discriminate K|exact (Nq K)].
  - split; [rewrite firstn_app, Nat.sub_diag, firstn_all; cbn [firstn]; apply app_nil_r|]. split.
    + replace (S (length Q)) with (length (Q ++ [QM])) by (rewrite app_length; cbn; lia).
      replace (Q ++ QM :: q ++ HASH :: h) with ((Q ++ [QM]) ++ q ++ HASH :: h) by (rewrite <- app_assoc; reflexivity).
      rewrite skipn_app, skipn_all, Nat.sub_diag. cbn [skipn app].
      replace (length Q + 1 + length q - length (Q ++ [QM])) with (length q) by (rewrite app_length; cbn [length]; lia).
      rewrite firstn_app, Nat.sub_diag, firstn_all. cbn [firstn]. apply app_nil_r.
    + replace (S (length Q + 1 + length q)) with (length ((Q ++ [QM]) ++ q ++ [HASH])) by (rewrite !app_length; cbn [length]; lia).
      replace (Q ++ QM :: q ++ HASH :: h) with (((Q ++ [QM]) ++ q ++ [HASH]) ++ h) by (rewrite <- !app_assoc; reflexivity).
      rewrite skipn_app, skipn_all, Nat.sub_diag. reflexivity.
Qed.

Theorem uri_roundtrip u : wf_uri u -> uri_parse (uri_full u) = Ok u.
Proof.
  destruct u as [scheme host user pass path query hash]. unfold wf_uri; cbn [u_scheme u_host u_user u_pass u_path u_query u_hash].
  intros (Sok & Slow & Hlow & Hsl & Hat & Hctl & -> & -> & Pc & Qctl & Qh & Fctl).
  destruct (contained_starts_sl _ Pc) as (pr & Ep).
  set (Q := quote_path path).
  assert (EQ : Q = flat_map quotep1 path) by (subst Q; rewrite Ep; apply quote_path_sl).
  assert (Qsafe : forallb url_safe Q = true) by (rewrite EQ; apply flat_quotep_safe).
  destruct (quote_path_starts_sl pr) as (qt & Eq). rewrite <- Ep in Eq. fold Q in Eq.
  set (T := qpart query ++ hpart hash).
  assert (Efull : uri_full {| u_scheme := scheme; u_host := host; u_user := []; u_pass := []; u_path := path; u_query := query; u_hash := hash |}
                  = scheme ++ cColon :: (str_slashslash ++ host ++ Q ++ T)).
  { unfold uri_full; cbn [u_scheme u_host u_path u_query u_hash]. fold Q. subst T.
    change bytestr_StrColonSlashSlash with (cColon :: str_slashslash). cbn [app]. reflexivity. }
  rewrite Efull. unfold uri_parse.
  (* no control byte *)
  assert (Tctl : has_ctl T = false).
  { subst T. rewrite has_ctl_app. destruct query as [|q0 q]; destruct hash as [|h0 h]; cbn [qpart hpart has_ctl existsb orb] in *; try reflexivity.
    - exact Fctl.
    - rewrite orb_false_r. exact Qctl.
    - fold (has_ctl (q0 :: q)). cbn [has_ctl existsb] in Qctl. rewrite Qctl. exact Fctl. }
  assert (Nctl : has_ctl (scheme ++ cColon :: str_slashslash ++ host ++ Q ++ T) = false).
  { rewrite has_ctl_app, (scheme_no_ctl _ Sok). cbn [orb].
    change (cColon :: str_slashslash ++ host ++ Q ++ T) with ((cColon :: str_slashslash) ++ host ++ Q ++ T).
    rewrite !has_ctl_app, Hctl, (safe_no_ctl _ Qsafe), Tctl. reflexivity. }
  rewrite Nctl.
  (* scheme and host *)
  assert (Sp : split_host_uri [] (scheme ++ cColon :: str_slashslash ++ host ++ Q ++ T) = Ok (scheme, host, Q ++ T)).
  { unfold split_host_uri, get_scheme. rewrite (scheme_colon_ok _ _ Sok).
    destruct (length scheme) as [|ls] eqn:Ls; [destruct scheme; [destruct Sok|discriminate]|]. rewrite <- Ls.
    unfold slice_to, slice_from. rewrite !app_length. cbn [length].
    replace (length scheme <=? length scheme + S (length (str_slashslash ++ host ++ Q ++ T))) with true by (symmetry; apply Nat.leb_le; lia).
    replace (S (length scheme) <=? length scheme + S (length (str_slashslash ++ host ++ Q ++ T))) with true by (symmetry; apply Nat.leb_le; lia).
    cbn [rbind]. rewrite firstn_app, Nat.sub_diag, firstn_all. cbn [firstn]. rewrite app_nil_r.
    replace (S (length scheme)) with (length (scheme ++ [cColon])) by (rewrite app_length; cbn; lia).
    replace (scheme ++ cColon :: str_slashslash ++ host ++ Q ++ T) with ((scheme ++ [cColon]) ++ str_slashslash ++ host ++ Q ++ T)
      by (rewrite <- app_assoc; reflexivity).
    rewrite skipn_app, skipn_all, Nat.sub_diag. cbn [skipn app].
    assert (HP : has_prefix str_slashslash (str_slashslash ++ host ++ Q ++ T) = true) by (apply has_prefix_spec; eauto).
    rewrite HP. cbn [negb].
    replace (length str_slashslash <=? length (str_slashslash ++ host ++ Q ++ T)) with true by (symmetry; apply Nat.leb_le; rewrite app_length; lia).
    cbn [rbind]. rewrite skipn_app, skipn_all, Nat.sub_diag. cbn [skipn app].
    assert (Ix : index_byte x2f (host ++ Q ++ T) = Some (length host)) by (rewrite Eq; cbn [app]; apply (index_byte_app x2f); exact Hsl).
    rewrite Ix.
    replace (length host <=? length (host ++ Q ++ T)) with true by (symmetry; apply Nat.leb_le; rewrite app_length; lia).
    cbn [rbind]. rewrite firstn_app, Nat.sub_diag, firstn_all. cbn [firstn]. rewrite app_nil_r.
    rewrite skipn_app, skipn_all, Nat.sub_diag. cbn [skipn app]. reflexivity. }
  rewrite Sp. cbn [rbind].
  rewrite (index_byte_none' AT host Hat).
  (* query and fragment *)
  assert (NoQ : ~ In QM Q) by (apply (safe_no_byte _ _ Qsafe); reflexivity).
  assert (NoH : ~ In HASH Q) by (apply (safe_no_byte _ _ Qsafe); reflexivity).
  assert (Norm : normalize_path Q = Some path).
  { unfold normalize_path. rewrite Eq. cbn [add_leading_slash]. rewrite beqb_refl. cbn [app]. rewrite <- Eq.
    rewrite decode_noplus_dec, EQ, dec_flat_quotep. apply contained_normal. exact Pc. }
  assert (Pos : path_or_slash path = path) by (rewrite Ep; reflexivity).
  assert (Sch : scheme_or_http (lower scheme) = scheme) by (rewrite Slow; destruct scheme; [destruct Sok|reflexivity]).
  subst T. destruct query as [|q0 q]; destruct hash as [|h0 h]; cbn [app qpart hpart].
  - rewrite app_nil_r. rewrite (index_byte_none' QM Q NoQ), (index_byte_none' HASH Q NoH).
    rewrite Norm, Sch, Hlow, Pos. reflexivity.
  - assert (IQ : index_byte QM (Q ++ HASH :: h0 :: h) = None \/ exists a, index_byte QM (Q ++ HASH :: h0 :: h) = Some a /\ length Q < a).
    { destruct (index_byte QM (Q ++ HASH :: h0 :: h)) as [a|] eqn:E; [|left; reflexivity]. right. exists a. split; [reflexivity|].
      pose proof (index_byte_nth _ _ _ E) as Nn.
      destruct (Nat.lt_ge_cases a (length Q)) as [L|L].
      - exfalso. rewrite nth_error_app1 in Nn by exact L. apply NoQ. eapply nth_error_In. exact Nn.
      - destruct (Nat.eq_dec a (length Q)) as [->|]; [|lia]. rewrite nth_error_app2 in Nn by lia. rewrite Nat.sub_diag in Nn. cbn in Nn. discriminate. }
    change (Q ++ HASH :: h0 :: h) with (Q ++ HASH :: (h0 :: h)) in *.
    rewrite (index_byte_app HASH Q (h0 :: h) NoH).
    destruct IQ as [E|(a & E & L)]; rewrite E.
    + rewrite firstn_app, Nat.sub_diag, firstn_all. cbn [firstn]. rewrite app_nil_r, Norm, Sch, Hlow, Pos.
      replace (S (length Q)) with (length (Q ++ [HASH])) by (rewrite app_length; cbn; lia).
      replace (Q ++ HASH :: h0 :: h) with ((Q ++ [HASH]) ++ h0 :: h) by (rewrite <- app_assoc; reflexivity).
      rewrite skipn_app, skipn_all, Nat.sub_diag. reflexivity.
    + apply Nat.ltb_lt in L. rewrite L.
      rewrite firstn_app, Nat.sub_diag, firstn_all. cbn [firstn]. rewrite app_nil_r, Norm, Sch, Hlow, Pos.
      replace (S (length Q)) with (length (Q ++ [HASH])) by (rewrite app_length; cbn; lia).
      replace (Q ++ HASH :: h0 :: h) with ((Q ++ [HASH]) ++ h0 :: h) by (rewrite <- app_assoc; reflexivity).
      rewrite skipn_app, skipn_all, Nat.sub_diag. reflexivity.
  - rewrite app_nil_r. rewrite (index_byte_app QM Q (q0 :: q) NoQ).
    assert (NH : ~ In HASH (Q ++ QM :: q0 :: q)).
    { intros K. apply in_app_or in K. destruct K as [K|[K|K]]; [exact (NoH K)|discriminate K|exact (Qh K)]. }
    rewrite (index_byte_none' HASH _ NH).
    rewrite firstn_app, Nat.sub_diag, firstn_all. cbn [firstn]. rewrite app_nil_r, Norm, Sch, Hlow, Pos.
    replace (S (length Q)) with (length (Q ++ [QM])) by (rewrite app_length; cbn; lia).
    replace (Q ++ QM :: q0 :: q) with ((Q ++ [QM]) ++ q0 :: q) by (rewrite <- app_assoc; reflexivity).
    rewrite skipn_app, skipn_all, Nat.sub_diag. reflexivity.
  - change (Q ++ QM :: q0 :: q ++ HASH :: h0 :: h) with (Q ++ QM :: (q0 :: q) ++ HASH :: (h0 :: h)).
    destruct (split3 Q (q0 :: q) (h0 :: h) NoQ NoH Qh) as (I1 & I2 & F1 & F2 & F3).
    rewrite I1, I2.
    assert (Lt : (length Q + 1 + length (q0 :: q) <? length Q) = false) by (apply Nat.ltb_ge; lia). rewrite Lt.
    rewrite F1, F2, F3, Norm, Sch, Hlow, Pos. reflexivity.
Qed.

Theorem uri_format_fixed_point u : wf_uri u ->
  match uri_parse (uri_full u) with Ok u' => uri_full u' = uri_full u | _ => False end.
Proof. intros W. rewrite (uri_roundtrip u W). reflexivity. Qed.
