(* C17: a response cookie written by Cookie.AppendBytes is read back by Cookie.ParseBytes with the same
   key, value and attributes. *)
From Coq Require Import String.
From Coq Require Import List Strings.Byte NArith ZArith Bool Arith Lia.
Require Import Bytes Show Res Tables TrailerKeys Range Chunk DecProofs HeaderScan HeaderScanProofs Cookie.
Import ListNotations.
Local Open Scope nat_scope.

(* ---------- texts that survive decodeCookieArg ---------- *)
Definition no_lead (v : bs) : Prop := match v with c :: _ => c <> SP | [] => True end.
Definition no_trail (v : bs) : Prop := match rev v with c :: _ => c <> SP | [] => True end.
Definition unquoted (v : bs) : Prop :=
  match v with c :: r => match rev r with d :: _ => ~ (c = DQ /\ d = DQ) | [] => True end | [] => True end.
Definition clean (v : bs) : Prop := ~ In SEMI v /\ no_lead v /\ no_trail v /\ unquoted v.

Lemma ltrim_id v : no_lead v -> ltrim v = v.
Proof.
  destruct v as [|c v]; [reflexivity|]. cbn [ltrim no_lead]. intros H.
  destruct (Byte.eqb c SP) eqn:E; [apply beqb_eq in E; contradiction|reflexivity].
Qed.
Lemma rtrim_id v : no_trail v -> rtrim v = v.
Proof. intros H. unfold rtrim. rewrite ltrim_id; [apply rev_involutive|]. exact H. Qed.
Lemma unquote_id v : unquoted v -> unquote v = v.
Proof.
  destruct v as [|c r]; [reflexivity|]. cbn [unquote unquoted]. destruct (rev r) as [|d m]; [reflexivity|].
  intros H. destruct (Byte.eqb c DQ) eqn:E1; [|reflexivity]. destruct (Byte.eqb d DQ) eqn:E2; [|reflexivity].
  apply beqb_eq in E1. apply beqb_eq in E2. exfalso. apply H. split; assumption.
Qed.
Lemma decode_clean v : clean v -> decode_cookie_arg v true = v.
Proof. intros (_ & L & T & Q). unfold decode_cookie_arg. rewrite ltrim_id, rtrim_id, unquote_id; auto. Qed.
Lemma decode_key k : no_lead k -> no_trail k -> decode_cookie_arg k false = k.
Proof. intros L T. unfold decode_cookie_arg. rewrite ltrim_id, rtrim_id; auto. Qed.

Lemma index_byte_none c s : ~ In c s -> index_byte c s = None.
Proof.
  induction s as [|x s IH]; intros H; cbn [index_byte]; [reflexivity|].
  destruct (Byte.eqb x c) eqn:E; [apply beqb_eq in E; subst; exfalso; apply H; left; reflexivity|].
  rewrite IH by (intros K; apply H; right; exact K). reflexivity.
Qed.

(* ---------- the text as a first segment followed by attribute bodies ---------- *)
Definition bpart (k v : bs) : bs := k ++ [EQ] ++ v.
Definition tail_of (l : list bs) : bs := concat (map (fun b => SEMI :: SP :: b) l).

Definition b_age (c : cookie) : list bs :=
  if (0 <? ck_maxage c)%Z then [bpart bytestr_StrCookieMaxAge (show_Z (ck_maxage c))]
  else match ck_expire c with [] => [] | e => [bpart bytestr_StrCookieExpires e] end.
Definition b_domain (c : cookie) : list bs := match ck_domain c with [] => [] | d => [bpart bytestr_StrCookieDomain d] end.
Definition b_path (c : cookie) : list bs := match ck_path c with [] => [] | p => [bpart bytestr_StrCookiePath p] end.
Definition b_http (c : cookie) : list bs := if ck_httponly c then [bytestr_StrCookieHTTPOnly] else [].
Definition b_secure (c : cookie) : list bs := if ck_secure c then [bytestr_StrCookieSecure] else [].
Definition b_same (c : cookie) : list bs :=
  match ck_samesite c with
  | 1 => [bytestr_StrCookieSameSite]
  | 2 => [bpart bytestr_StrCookieSameSite bytestr_StrCookieSameSiteLax]
  | 3 => [bpart bytestr_StrCookieSameSite bytestr_StrCookieSameSiteStrict]
  | 4 => [bpart bytestr_StrCookieSameSite bytestr_StrCookieSameSiteNone]
  | _ => []
  end.
Definition b_part (c : cookie) : list bs := if ck_partitioned c then [bytestr_StrCookiePartitioned] else [].
Definition bodies (c : cookie) : list bs :=
  b_age c ++ b_domain c ++ b_path c ++ b_http c ++ b_secure c ++ b_same c ++ b_part c.

Lemma tail_of_app a b : tail_of (a ++ b) = tail_of a ++ tail_of b.
Proof. unfold tail_of. rewrite map_app, concat_app. reflexivity. Qed.

Lemma tail_of_single b : tail_of [b] = SEMI :: SP :: b.
Proof. unfold tail_of. cbn [map concat]. rewrite app_nil_r. reflexivity. Qed.

Lemma cookie_bytes_shape c :
  cookie_bytes c = (match ck_key c with [] => [] | k => k ++ [EQ] end) ++ ck_value c ++ tail_of (bodies c).
Proof.
  unfold cookie_bytes, bodies. rewrite !tail_of_app. do 2 f_equal.
  f_equal; [unfold b_age; destruct (0 <? ck_maxage c)%Z; [rewrite tail_of_single; reflexivity|destruct (ck_expire c); [reflexivity|rewrite tail_of_single; reflexivity]]|].
  f_equal; [unfold b_domain; destruct (ck_domain c); [reflexivity|rewrite tail_of_single; reflexivity]|].
  f_equal; [unfold b_path; destruct (ck_path c); [reflexivity|rewrite tail_of_single; reflexivity]|].
  f_equal; [unfold b_http; destruct (ck_httponly c); [rewrite tail_of_single; reflexivity|reflexivity]|].
  f_equal; [unfold b_secure; destruct (ck_secure c); [rewrite tail_of_single; reflexivity|reflexivity]|].
  f_equal; [unfold b_same; destruct (ck_samesite c) as [|[|[|[|[|n]]]]]; try reflexivity; rewrite tail_of_single; reflexivity|].
  unfold b_part; destruct (ck_partitioned c); [rewrite tail_of_single; reflexivity|reflexivity].
Qed.

(* ---------- the scanner on such a text ---------- *)
Lemma semi_ne_sp : SEMI <> SP. Proof. discriminate. Qed.

Lemma scan_next_seg seg l : ~ In SEMI seg ->
  scan_next (seg ++ tail_of l) = (fst (seg_kv seg), snd (seg_kv seg), tl (tail_of l)).
Proof.
  intros H. unfold scan_next. destruct l as [|b l].
  - cbn [tail_of map concat]. rewrite app_nil_r, (index_byte_none SEMI seg H). destruct (seg_kv seg); reflexivity.
  - cbn [tail_of map concat app tl]. rewrite (index_byte_app SEMI seg _ H).
    rewrite firstn_app_self. replace (S (length seg)) with (length (seg ++ [SEMI])) by (rewrite app_length; cbn; lia).
    replace (seg ++ SEMI :: SP :: b ++ concat (map (fun b0 => SEMI :: SP :: b0) l))
      with ((seg ++ [SEMI]) ++ SP :: b ++ concat (map (fun b0 => SEMI :: SP :: b0) l)) by (rewrite <- app_assoc; reflexivity).
    rewrite skipn_app_self. destruct (seg_kv seg); reflexivity.
Qed.

Definition step (oc : option cookie) (b : bs) : option cookie :=
  match oc with
  | Some c => let kv := seg_kv (SP :: b) in apply_attr (fst kv) (snd kv) c
  | None => None
  end.

Lemma fold_none l : fold_left step l None = None.
Proof. induction l; [reflexivity|exact IHl]. Qed.

Lemma parse_bodies : forall l fuel c, Forall (fun b => ~ In SEMI b) l -> length (tail_of l) <= fuel ->
  parse_attrs fuel (tl (tail_of l)) c = fold_left step l (Some c).
Proof.
  induction l as [|b l IH]; intros fuel c F L.
  - cbn [tail_of map concat tl fold_left]. destruct fuel; reflexivity.
  - inversion F as [|? ? Hb Hl]; subst.
    change (tail_of (b :: l)) with (SEMI :: SP :: b ++ tail_of l) in *. cbn [tl length] in *.
    destruct fuel as [|fuel]; [lia|]. cbn [parse_attrs].
    change (SP :: b ++ tail_of l) with ((SP :: b) ++ tail_of l).
    rewrite scan_next_seg by (intros [K|K]; [exact (semi_ne_sp (eq_sym K))|exact (Hb K)]).
    cbn [fold_left step]. destruct (apply_attr (fst (seg_kv (SP :: b))) (snd (seg_kv (SP :: b))) c) as [c'|].
    + apply IH; [exact Hl|]. rewrite app_length in L. destruct (tail_of l); cbn [length tl] in *; lia.
    + rewrite fold_none. reflexivity.
Qed.

(* ---------- one attribute body ---------- *)
Lemma seg_kv_part name v : ~ In EQ name -> no_lead name -> no_trail name -> clean v ->
  seg_kv (SP :: bpart name v) = (name, v).
Proof.
  intros NE L T C. unfold seg_kv, bpart. change (SP :: name ++ [EQ] ++ v) with ((SP :: name) ++ EQ :: v).
  assert (N2 : ~ In EQ (SP :: name)) by (intros [K|K]; [discriminate K|exact (NE K)]).
  rewrite (index_byte_app EQ _ v N2), firstn_app_self.
  replace (S (length (SP :: name))) with (length ((SP :: name) ++ [EQ])) by (rewrite app_length; cbn; lia).
  replace ((SP :: name) ++ EQ :: v) with (((SP :: name) ++ [EQ]) ++ v) by (rewrite <- app_assoc; reflexivity).
  rewrite skipn_app_self, (decode_clean v C). f_equal.
  unfold decode_cookie_arg. cbn [ltrim]. rewrite beqb_refl. rewrite (ltrim_id name L), (rtrim_id name T). reflexivity.
Qed.

Lemma seg_kv_flag name : ~ In EQ name -> no_lead name -> no_trail name -> unquoted name ->
  seg_kv (SP :: name) = ([], name).
Proof.
  intros NE L T Q. unfold seg_kv.
  assert (N2 : ~ In EQ (SP :: name)) by (intros [K|K]; [discriminate K|exact (NE K)]).
  rewrite (index_byte_none EQ _ N2). f_equal.
  unfold decode_cookie_arg. cbn [ltrim]. rewrite beqb_refl. rewrite (ltrim_id name L), (rtrim_id name T), (unquote_id name Q). reflexivity.
Qed.

Ltac notin := let K := fresh in intros K; vm_compute in K; repeat (destruct K as [K|K]; [discriminate K|]); exact K.
Ltac plain := vm_compute; try discriminate; try (intros [? ?]; discriminate); try exact I.

Lemma clean_digits v : Forall is_digit v -> v <> [] -> clean v.
Proof.
  intros F NE.
  assert (D : forall c, is_digit c -> c <> SEMI /\ c <> SP /\ c <> DQ).
  { intros c H. unfold is_digit, digit_of in H. repeat split; intros ->; vm_compute in H; destruct H as [H1 H2]; first [apply H1; reflexivity|apply H2; reflexivity]. }
  split; [|split; [|split]].
  - intros K. rewrite Forall_forall in F. destruct (D _ (F _ K)) as (A & _). congruence.
  - destruct v as [|c v]; [exact I|]. inversion F; subst. cbn. apply D. assumption.
  - unfold no_trail. destruct (rev v) as [|c r] eqn:R; [exact I|].
    assert (In c v) by (apply in_rev; rewrite R; left; reflexivity).
    rewrite Forall_forall in F. apply D. apply F. assumption.
  - destruct v as [|c v]; [exact I|]. cbn. inversion F; subst. destruct (rev v); [exact I|].
    intros [A _]. destruct (D c) as (_ & _ & X); [assumption|]. congruence.
Qed.

(* ---------- the attributes of a well-formed cookie, group by group ---------- *)
Definition with_http (b : bool) (x : cookie) : cookie := {| ck_key := ck_key x; ck_value := ck_value x; ck_maxage := ck_maxage x; ck_expire := ck_expire x; ck_domain := ck_domain x; ck_path := ck_path x; ck_httponly := b; ck_secure := ck_secure x; ck_samesite := ck_samesite x; ck_partitioned := ck_partitioned x |}.
Definition with_secure (b : bool) (x : cookie) : cookie := {| ck_key := ck_key x; ck_value := ck_value x; ck_maxage := ck_maxage x; ck_expire := ck_expire x; ck_domain := ck_domain x; ck_path := ck_path x; ck_httponly := ck_httponly x; ck_secure := b; ck_samesite := ck_samesite x; ck_partitioned := ck_partitioned x |}.
Definition with_part (b : bool) (x : cookie) : cookie := {| ck_key := ck_key x; ck_value := ck_value x; ck_maxage := ck_maxage x; ck_expire := ck_expire x; ck_domain := ck_domain x; ck_path := ck_path x; ck_httponly := ck_httponly x; ck_secure := ck_secure x; ck_samesite := ck_samesite x; ck_partitioned := b |}.

Lemma fold_age c x : (0 <= ck_maxage c < two63)%Z -> ((0 < ck_maxage c)%Z -> ck_expire c = []) -> clean (ck_expire c) ->
  ck_maxage x = 0%Z -> ck_expire x = [] ->
  fold_left step (b_age c) (Some x) = Some (set_expire (ck_expire c) (set_maxage (ck_maxage c) x)).
Proof.
  intros R ME CE X1 X2. unfold b_age. destruct (Z.ltb_spec 0 (ck_maxage c)) as [P|P].
  - cbn [fold_left step]. destruct (show_Z_digits (ck_maxage c)) as [Dg Ne]; [lia|].
    rewrite seg_kv_part; [|notin|plain|plain|apply clean_digits; assumption]. cbn [fst snd].
    replace (apply_attr bytestr_StrCookieMaxAge (show_Z (ck_maxage c)) x)
      with (match parse_uint (show_Z (ck_maxage c)) with Some z => Some (set_maxage z x) | None => None end) by reflexivity.
    rewrite parse_uint_show by lia. rewrite (ME P). destruct x; cbn in *; subst; reflexivity.
  - assert (Z0 : ck_maxage c = 0%Z) by lia. rewrite Z0.
    destruct (ck_expire c) as [|e0 e] eqn:E.
    + cbn [fold_left]. destruct x; cbn in *; subst; reflexivity.
    + cbn [fold_left step]. rewrite seg_kv_part; [|notin|plain|plain|exact CE]. cbn [fst snd].
      replace (apply_attr bytestr_StrCookieExpires (e0 :: e) x) with (Some (set_expire (e0 :: e) x)) by reflexivity.
      destruct x; cbn in *; subst; reflexivity.
Qed.

Lemma fold_domain c x : clean (ck_domain c) -> ck_domain x = [] ->
  fold_left step (b_domain c) (Some x) = Some (set_domain (ck_domain c) x).
Proof.
  intros C X. unfold b_domain. destruct (ck_domain c) as [|d0 d] eqn:E.
  - cbn [fold_left]. destruct x; cbn in *; subst; reflexivity.
  - cbn [fold_left step]. rewrite seg_kv_part; [|notin|plain|plain|exact C]. reflexivity.
Qed.

Lemma fold_path c x : clean (ck_path c) -> ck_path x = [] ->
  fold_left step (b_path c) (Some x) = Some (set_path (ck_path c) x).
Proof.
  intros C X. unfold b_path. destruct (ck_path c) as [|d0 d] eqn:E.
  - cbn [fold_left]. destruct x; cbn in *; subst; reflexivity.
  - cbn [fold_left step]. rewrite seg_kv_part; [|notin|plain|plain|exact C]. reflexivity.
Qed.

Lemma fold_http c x : ck_httponly x = false -> fold_left step (b_http c) (Some x) = Some (with_http (ck_httponly c) x).
Proof.
  intros X. unfold b_http. destruct (ck_httponly c).
  - cbn [fold_left step]. rewrite seg_kv_flag; [|notin|plain|plain|plain]. reflexivity.
  - cbn [fold_left]. destruct x; cbn in *; subst; reflexivity.
Qed.

Lemma fold_secure c x : ck_secure x = false -> fold_left step (b_secure c) (Some x) = Some (with_secure (ck_secure c) x).
Proof.
  intros X. unfold b_secure. destruct (ck_secure c).
  - cbn [fold_left step]. rewrite seg_kv_flag; [|notin|plain|plain|plain]. reflexivity.
  - cbn [fold_left]. destruct x; cbn in *; subst; reflexivity.
Qed.

Lemma fold_same c x : ck_samesite c <= 4 -> ck_samesite x = 0 ->
  fold_left step (b_same c) (Some x) = Some (set_samesite (ck_samesite c) x).
Proof.
  intros R X. unfold b_same. destruct (ck_samesite c) as [|[|[|[|[|n]]]]]; [| | | | |lia].
  - cbn [fold_left]. destruct x; cbn in *; subst; reflexivity.
  - cbn [fold_left step]. rewrite seg_kv_flag; [|notin|plain|plain|plain]. reflexivity.
  - cbn [fold_left step]. rewrite seg_kv_part; [|notin|plain|plain|repeat split; plain; notin]. reflexivity.
  - cbn [fold_left step]. rewrite seg_kv_part; [|notin|plain|plain|repeat split; plain; notin]. reflexivity.
  - cbn [fold_left step]. rewrite seg_kv_part; [|notin|plain|plain|repeat split; plain; notin]. reflexivity.
Qed.

Lemma fold_part c x : ck_partitioned x = false -> fold_left step (b_part c) (Some x) = Some (with_part (ck_partitioned c) x).
Proof.
  intros X. unfold b_part. destruct (ck_partitioned c).
  - cbn [fold_left step]. rewrite seg_kv_flag; [|notin|plain|plain|plain]. reflexivity.
  - cbn [fold_left]. destruct x; cbn in *; subst; reflexivity.
Qed.

(* ---------- the round trip ---------- *)
Definition wf_cookie (c : cookie) : Prop :=
  ck_key c <> [] /\ ~ In SEMI (ck_key c) /\ ~ In EQ (ck_key c) /\ no_lead (ck_key c) /\ no_trail (ck_key c) /\
  clean (ck_value c) /\ (0 <= ck_maxage c < two63)%Z /\ ((0 < ck_maxage c)%Z -> ck_expire c = []) /\
  clean (ck_expire c) /\ clean (ck_domain c) /\ clean (ck_path c) /\ ck_samesite c <= 4.

Lemma bodies_no_semi c : clean (ck_expire c) -> clean (ck_domain c) -> clean (ck_path c) -> (0 <= ck_maxage c)%Z ->
  Forall (fun b => ~ In SEMI b) (bodies c).
Proof.
  intros CE CD CP MA.
  assert (P : forall name v, ~ In SEMI name -> ~ In SEMI v -> ~ In SEMI (bpart name v)).
  { intros name v A B K. unfold bpart in K. apply in_app_or in K. destruct K as [K|K]; [exact (A K)|].
    apply in_app_or in K. destruct K as [K|K]; [destruct K as [K|[]]; discriminate K|exact (B K)]. }
  unfold bodies. repeat (apply Forall_app; split).
  - unfold b_age. destruct (0 <? ck_maxage c)%Z.
    + constructor; [|constructor]. apply P; [notin|]. destruct (show_Z_digits (ck_maxage c) MA) as [Dg Ne]. exact (proj1 (clean_digits _ Dg Ne)).
    + destruct (ck_expire c) eqn:E; [constructor|]. constructor; [|constructor]. apply P; [notin|exact (proj1 CE)].
  - unfold b_domain. destruct (ck_domain c) eqn:E; [constructor|]. constructor; [|constructor]. apply P; [notin|exact (proj1 CD)].
  - unfold b_path. destruct (ck_path c) eqn:E; [constructor|]. constructor; [|constructor]. apply P; [notin|exact (proj1 CP)].
  - unfold b_http. destruct (ck_httponly c); constructor; [notin|constructor].
  - unfold b_secure. destruct (ck_secure c); constructor; [notin|constructor].
  - unfold b_same. destruct (ck_samesite c) as [|[|[|[|[|n]]]]]; try constructor; try constructor; try (apply P; notin); notin.
  - unfold b_part. destruct (ck_partitioned c); constructor; [notin|constructor].
Qed.

Theorem cookie_roundtrip c : wf_cookie c -> cookie_parse (cookie_bytes c) = Some c.
Proof.
  intros (K0 & K1 & K2 & K3 & K4 & CV & MA & ME & CE & CD & CP & SS).
  rewrite cookie_bytes_shape. destruct (ck_key c) as [|k0 kr] eqn:K; [congruence|].
  set (key := k0 :: kr) in *.
  replace ((key ++ [EQ]) ++ ck_value c ++ tail_of (bodies c)) with ((key ++ EQ :: ck_value c) ++ tail_of (bodies c))
    by (rewrite <- !app_assoc; reflexivity).
  unfold cookie_parse.
  destruct ((key ++ EQ :: ck_value c) ++ tail_of (bodies c)) as [|h t] eqn:E; [subst key; discriminate E|]. rewrite <- E. clear E h t.
  assert (NS : ~ In SEMI (key ++ EQ :: ck_value c)).
  { intros X. apply in_app_or in X. destruct X as [X|[X|X]]; [exact (K1 X)|discriminate X|exact (proj1 CV X)]. }
  rewrite (scan_next_seg _ _ NS).
  assert (SK : seg_kv (key ++ EQ :: ck_value c) = (key, ck_value c)).
  { unfold seg_kv. rewrite (index_byte_app EQ key _ K2), firstn_app_self.
    replace (S (length key)) with (length (key ++ [EQ])) by (rewrite app_length; cbn; lia).
    replace (key ++ EQ :: ck_value c) with ((key ++ [EQ]) ++ ck_value c) by (rewrite <- app_assoc; reflexivity).
    rewrite skipn_app_self, (decode_clean _ CV), (decode_key key K3 K4). reflexivity. }
  rewrite SK. cbn [fst snd].
  rewrite parse_bodies; [|apply bodies_no_semi; try assumption; lia|destruct (tail_of (bodies c)); cbn [tl length]; lia].
  unfold bodies. rewrite !fold_left_app.
  rewrite fold_age; try assumption; try reflexivity.
  rewrite fold_domain; try assumption; try reflexivity.
  rewrite fold_path; try assumption; try reflexivity.
  rewrite fold_http; try reflexivity.
  rewrite fold_secure; try reflexivity.
  rewrite fold_same; try assumption; try reflexivity.
  rewrite fold_part; try reflexivity.
  destruct c; cbn in *; subst; reflexivity.
Qed.
