(* C02: the read loop shared by req.ReadHeader / resp.ReadHeader / ext.ReadTrailer
     n := 1; loop { Peek(n); parse everything buffered; on "need more": n = Len() or n+1 }
   is independent of how the bytes are split into reads, for ANY parser that is stable under
   extension of its input.  Then the instance for the header-block boundary. *)
From Coq Require Import String.
From Coq Require Import List Arith Lia Bool Strings.Byte.
Require Import Bytes Show HeaderBlock.
Import ListNotations.

Section Retry.
Variable A : Type.
Variable E : Type.

Inductive pres := POk (n : nat) (x : A) | PErr (e : E) | PMore.
Variable parse : bs -> pres.

(* what has to be proved about each concrete parser *)
Hypothesis ok_stable  : forall p n x q, parse p = POk n x -> parse (p ++ q) = POk n x.
Hypothesis ok_bound   : forall p n x, parse p = POk n x -> n <= length p.
Hypothesis err_stable : forall p e q, parse p = PErr e -> parse (p ++ q) = PErr e.

(* buffered reader without read errors: bytes already buffered, fragments still to arrive, then EOF *)
Record rdr := { rbuf : bs; rwire : list bs }.

Fixpoint rfill (n : nat) (b : bs) (w : list bs) : bs * list bs :=
  match w with
  | [] => (b, [])
  | f :: w' => if n <=? length b then (b, w) else rfill n (b ++ f) w'
  end.

Inductive outcome := Done (x : A) (rest : rdr) | Failed (e : E) | Eof (seen : bs).

Fixpoint read_loop (fuel : nat) (n : nat) (r : rdr) : option outcome :=
  match fuel with
  | O => None
  | S f =>
      let (b, w) := rfill n (rbuf r) (rwire r) in
      match parse b with
      | POk k x => Some (Done x {| rbuf := skipn k b; rwire := w |})
      | PErr e => Some (Failed e)
      | PMore =>
          if length b <? n then Some (Eof b)               (* short Peek: EOF while more was needed *)
          else read_loop f (if n =? length b then S n else length b) {| rbuf := b; rwire := w |}
      end
  end.

Definition whole (r : rdr) : bs := rbuf r ++ concat (rwire r).

Lemma rfill_whole n b w : let (b', w') := rfill n b w in b' ++ concat w' = b ++ concat w.
Proof.
  revert b; induction w as [|f w IH]; intros b; simpl.
  - reflexivity.
  - destruct (n <=? length b); simpl; auto.
    specialize (IH (b ++ f)). destruct (rfill n (b ++ f) w) as [b' w']. rewrite IH, <- app_assoc. reflexivity.
Qed.

Lemma rfill_short n b w : length (fst (rfill n b w)) < n -> snd (rfill n b w) = [].
Proof.
  revert b; induction w as [|f w IH]; intros b; simpl; auto.
  destruct (n <=? length b) eqn:L; simpl; auto. apply Nat.leb_le in L. lia.
Qed.

Theorem read_loop_whole : forall fuel n r o,
  read_loop fuel n r = Some o ->
  match o with
  | Done x r' => exists k, parse (whole r) = POk k x /\ whole r' = skipn k (whole r)
  | Failed e => parse (whole r) = PErr e
  | Eof seen => seen = whole r /\ parse (whole r) = PMore
  end.
Proof.
  induction fuel as [|f IH]; intros n r o H; simpl in H; [discriminate|].
  pose proof (rfill_whole n (rbuf r) (rwire r)) as W.
  pose proof (rfill_short n (rbuf r) (rwire r)) as S.
  destruct (rfill n (rbuf r) (rwire r)) as [b w] eqn:F. simpl in S.
  unfold whole. rewrite <- W.
  destruct (parse b) as [k x|e|] eqn:P.
  - inversion H; subst. exists k. split.
    + apply ok_stable. exact P.
    + unfold whole. simpl. pose proof (ok_bound _ _ _ P) as Hk.
      rewrite skipn_app. replace (k - length b) with 0 by lia. reflexivity.
  - inversion H; subst. apply err_stable. exact P.
  - destruct (length b <? n) eqn:L.
    + inversion H; subst. apply Nat.ltb_lt in L. rewrite (S L). simpl. rewrite app_nil_r. auto.
    + specialize (IH _ _ _ H). unfold whole in IH. simpl in IH. exact IH.
Qed.

Definition obs (o : outcome) : option (A * bs) + E + bs :=
  match o with
  | Done x r' => inl (inl (Some (x, whole r')))
  | Failed e => inl (inr e)
  | Eof seen => inr seen
  end.

Theorem sched_indep : forall f1 f2 n1 n2 r1 r2 o1 o2,
  whole r1 = whole r2 ->
  read_loop f1 n1 r1 = Some o1 -> read_loop f2 n2 r2 = Some o2 ->
  obs o1 = obs o2.
Proof.
  intros f1 f2 n1 n2 r1 r2 o1 o2 W H1 H2.
  apply read_loop_whole in H1. apply read_loop_whole in H2. rewrite W in H1.
  destruct o1 as [x1 r1'|e1|s1], o2 as [x2 r2'|e2|s2]; simpl.
  - destruct H1 as [k1 [P1 S1]], H2 as [k2 [P2 S2]]. rewrite P1 in P2. inversion P2; subst. rewrite S1, S2. reflexivity.
  - destruct H1 as [k1 [P1 _]]. congruence.
  - destruct H1 as [k1 [P1 _]], H2 as [_ P2]. congruence.
  - destruct H2 as [k2 [P2 _]]. congruence.
  - congruence.
  - destruct H2 as [_ P2]. congruence.
  - destruct H1 as [_ P1], H2 as [k2 [P2 _]]. congruence.
  - destruct H1 as [_ P1]. congruence.
  - destruct H1 as [-> _], H2 as [-> _]. reflexivity.
Qed.
End Retry.

(* ---------------- instance: the header block boundary ---------------- *)
Lemma take_to_lf_app s l rest q : take_to_lf s = Some (l, rest) -> take_to_lf (s ++ q) = Some (l, rest ++ q).
Proof.
  revert l rest; induction s as [|c r IH]; intros l rest H; simpl in *; [discriminate|].
  destruct (Byte.eqb c cLF). { inversion H; subst. reflexivity. }
  destruct (take_to_lf r) as [[l' rest']|]; [|discriminate]. inversion H; subst.
  rewrite (IH _ _ eq_refl). reflexivity.
Qed.

Lemma take_to_lf_len s l rest : take_to_lf s = Some (l, rest) -> length s = length l + 1 + length rest.
Proof.
  revert l rest; induction s as [|c r IH]; intros l rest H; simpl in *; [discriminate|].
  destruct (Byte.eqb c cLF). { inversion H; subst. simpl. lia. }
  destruct (take_to_lf r) as [[l' rest']|]; [|discriminate]. inversion H; subst.
  rewrite (IH _ _ eq_refl). simpl. lia.
Qed.

Lemma block_len_stable : forall f s acc n q f',
  block_len f s acc = Some n -> f <= f' -> block_len f' (s ++ q) acc = Some n.
Proof.
  induction f as [|f IH]; intros s acc n q f' H Hf; [discriminate|].
  destruct f' as [|f']; [lia|]. cbn [block_len] in *.
  destruct (take_to_lf s) as [[l rest]|] eqn:T; [|discriminate].
  rewrite (take_to_lf_app _ _ _ q T).
  destruct (empty_line l); [exact H|]. apply IH; [exact H | lia].
Qed.

Lemma block_len_bound : forall f s acc n, block_len f s acc = Some n -> n <= acc + length s.
Proof.
  induction f as [|f IH]; intros s acc n H; [discriminate|]. cbn [block_len] in H.
  destruct (take_to_lf s) as [[l rest]|] eqn:T; [|discriminate].
  pose proof (take_to_lf_len _ _ _ T) as L.
  destruct (empty_line l).
  - inversion H; subst. lia.
  - apply IH in H. lia.
Qed.

Lemma header_block_len_stable s n q : header_block_len s = Some n -> header_block_len (s ++ q) = Some n.
Proof.
  unfold header_block_len. intros H. eapply block_len_stable; [exact H|]. rewrite app_length. lia.
Qed.
Lemma header_block_len_bound s n : header_block_len s = Some n -> n <= length s.
Proof. unfold header_block_len. intros H. apply block_len_bound in H. lia. Qed.

(* as a `parse` for the generic loop: the value is the block itself *)
Definition block_parse (s : bs) : pres bs unit :=
  match header_block_len s with Some n => POk bs unit n (firstn n s) | None => PMore bs unit end.

Lemma block_parse_ok_stable p n x q : block_parse p = POk bs unit n x -> block_parse (p ++ q) = POk bs unit n x.
Proof.
  unfold block_parse. destruct (header_block_len p) as [k|] eqn:H; [|discriminate].
  intros E. inversion E; subst. rewrite (header_block_len_stable _ _ q H).
  rewrite firstn_app. pose proof (header_block_len_bound _ _ H).
  replace (n - length p) with 0 by lia. simpl. rewrite app_nil_r. reflexivity.
Qed.
Lemma block_parse_ok_bound p n x : block_parse p = POk bs unit n x -> n <= length p.
Proof.
  unfold block_parse. destruct (header_block_len p) as [k|] eqn:H; [|discriminate].
  intros E. inversion E; subst. apply header_block_len_bound. exact H.
Qed.
Lemma block_parse_err_stable p (e : unit) q : block_parse p = PErr bs unit e -> block_parse (p ++ q) = PErr bs unit e.
Proof. unfold block_parse. destruct (header_block_len p); discriminate. Qed.

(* Whatever the fragmentation, the loop hands the scanner the same complete header block and
   leaves the reader at the same place (or reports the same premature end). *)
Theorem header_block_sched_indep : forall f1 f2 n1 n2 r1 r2 o1 o2,
  whole r1 = whole r2 ->
  read_loop bs unit block_parse f1 n1 r1 = Some o1 ->
  read_loop bs unit block_parse f2 n2 r2 = Some o2 ->
  obs bs unit o1 = obs bs unit o2.
Proof.
  exact (sched_indep bs unit block_parse block_parse_ok_stable block_parse_ok_bound block_parse_err_stable).
Qed.
