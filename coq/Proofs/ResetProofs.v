(* C09 proofs: soundness of the reset analysis against the concrete semantics. *)
From Coq Require Import String.
From Coq Require Import List Arith Lia Bool Strings.Byte.
Require Import Bytes Show ResetLang.
Import ListNotations.

(* ---------- soundness ---------- *)
Lemma bindp_ret ps k l a : bindp ps k = Some l -> In (a, true) ps -> In (a, true) l.
Proof.
  revert l; induction ps as [|[a0 [|]] r IH]; simpl; intros l H Hin; [contradiction| |].
  - destruct (bindp r k) as [l0|]; [|discriminate]. inversion H; subst.
    destruct Hin as [Hin|Hin]; [left; exact Hin | right; apply IH; auto].
  - destruct (k a0) as [l1|]; [|discriminate]. destruct (bindp r k) as [l2|]; [|discriminate].
    inversion H; subst. destruct Hin as [Hin|Hin]; [discriminate|]. apply in_or_app. right. apply IH; auto.
Qed.

Lemma bindp_cont ps k l a l1 x : bindp ps k = Some l -> In (a, false) ps -> k a = Some l1 -> In x l1 -> In x l.
Proof.
  revert l; induction ps as [|[a0 [|]] r IH]; simpl; intros l H Hin Hk Hx; [contradiction| |].
  - destruct (bindp r k) as [l0|]; [|discriminate]. inversion H; subst.
    destruct Hin as [Hin|Hin]; [discriminate|]. right. apply IH; auto.
  - destruct (k a0) as [l1'|] eqn:K; [|discriminate]. destruct (bindp r k) as [l2|]; [|discriminate].
    inversion H; subst. apply in_or_app. destruct Hin as [Hin|Hin].
    + inversion Hin; subst. rewrite Hk in K. inversion K; subst. left; exact Hx.
    + right. apply IH; auto.
Qed.

Lemma sound_upd a s f v b : sound a s -> (b = true -> fresh v = true) -> sound (upd a f b) (upd s f v).
Proof.
  intros S H g. unfold upd. destruct (g =? f); auto.
Qed.

Lemma sound_refine a s f : sound a s -> s f = VZero -> sound (upd a f true) s.
Proof.
  intros S H g. unfold upd. destruct (g =? f) eqn:E; auto.
  apply Nat.eqb_eq in E. subst. intros _. rewrite H. reflexivity.
Qed.

Lemma bindp_total ps k l a : bindp ps k = Some l -> In (a, false) ps -> k a <> None.
Proof.
  revert l; induction ps as [|[a0 [|]] r IH]; simpl; intros l H Hin; [contradiction| |].
  - destruct (bindp r k) as [l0|]; [|discriminate]. destruct Hin as [Hin|Hin]; [discriminate|]. eapply IH; eauto.
  - destruct (k a0) as [l1|] eqn:K; [|discriminate]. destruct (bindp r k) as [l2|]; [|discriminate].
    destruct Hin as [Hin|Hin]; [inversion Hin; subst; congruence | eapply IH; eauto].
Qed.

Theorem aexec_sound : forall fuel ms b a s o ps s' ret o',
  sound a s -> aexec fuel ms b a = Some ps -> cexec fuel ms b s o = Some (s', ret, o') ->
  exists a', In (a', ret) ps /\ sound a' s'.
Proof.
  induction fuel as [|fu IH]; intros ms b a s o ps s' ret o' S A C; [discriminate|].
  cbn [aexec cexec] in A, C. destruct b as [|st rest].
  - inversion A; subst. inversion C; subst. exists a. split; [left; reflexivity | auto].
  - destruct st as [f r|m|f total|c t e| | |src].
    + (* SSet *) eapply IH; [| exact A | exact C]. apply sound_upd; auto.
    + (* SCall *)
      destruct (aexec fu ms (ms m) a) as [pm|] eqn:Am; [|discriminate].
      destruct (cexec fu ms (ms m) s o) as [[[s1 r1] o1]|] eqn:Cm; [|discriminate].
      destruct (IH _ _ _ _ _ _ _ _ _ S Am Cm) as (a1 & Hin1 & S1).
      destruct (aexec fu ms rest a1) as [l1|] eqn:Ar.
      * destruct (IH _ _ _ _ _ _ _ _ _ S1 Ar C) as (a2 & Hin2 & S2).
        exists a2. split; auto.
        eapply bindp_cont; [exact A | | exact Ar | exact Hin2].
        apply in_map_iff. exists (a1, r1). auto.
      * exfalso. clear -A Ar Hin1.
        assert (Hin : In (a1, false) (map (fun p : astate * bool => (fst p, false)) pm)) by (apply in_map_iff; exists (a1, r1); auto).
        revert Hin A. generalize (map (fun p : astate * bool => (fst p, false)) pm) as qs. intros qs. revert ps.
        induction qs as [|[a0 [|]] q IHq]; simpl; intros ps Hin A; [contradiction| |].
        -- destruct (bindp q (aexec fu ms rest)) as [l0|] eqn:Bq; [|discriminate].
           destruct Hin as [Hin|Hin]; [discriminate|]. eapply IHq; eauto.
        -- destruct Hin as [Hin|Hin].
           ++ inversion Hin; subst. rewrite Ar in A. discriminate.
           ++ destruct (aexec fu ms rest a0); [|discriminate].
              destruct (bindp q (aexec fu ms rest)) as [l0|] eqn:Bq; [|discriminate]. eapply IHq; eauto.
    + (* SSub *) eapply IH; [| exact A | exact C]. destruct total; apply sound_upd; auto; intros; discriminate.
    + (* SIf *)
      set (at_ := match c with CIsNil f => upd a f true | _ => a end) in *.
      set (ae := match c with CNotNil f => upd a f true | _ => a end) in *.
      destruct (aexec fu ms t at_) as [l1|] eqn:At; [|discriminate].
      destruct (aexec fu ms e ae) as [l2|] eqn:Ae; [|discriminate].
      (* [go blk Sx Ax side]: the concrete run took block [blk]; [Sx] is soundness of the abstract entry state *)
      assert (Go : forall blk ab lb o1, sound ab s -> aexec fu ms blk ab = Some lb ->
                   (forall x, In x lb -> In x (l1 ++ l2)) ->
                   cont (cexec fu ms blk s o1) (fun s1 o2 => cexec fu ms rest s1 o2) = Some (s', ret, o') ->
                   exists a', In (a', ret) ps /\ sound a' s').
      { intros blk ab lb o1 Sb Ab Sub Cc. unfold cont in Cc.
        destruct (cexec fu ms blk s o1) as [[[s1 r1] o2]|] eqn:Cb; [|discriminate].
        destruct (IH _ _ _ _ _ _ _ _ _ Sb Ab Cb) as (a1 & Hin1 & S1).
        destruct r1.
        - inversion Cc; subst. exists a1. split; auto. eapply bindp_ret; [exact A|]. auto.
        - destruct (aexec fu ms rest a1) as [lr|] eqn:Ar.
          + destruct (IH _ _ _ _ _ _ _ _ _ S1 Ar Cc) as (a2 & Hin2 & S2). exists a2. split; auto.
            eapply bindp_cont; [exact A | | exact Ar | exact Hin2]. auto.
          + exfalso. eapply bindp_total; [exact A | | exact Ar]. auto. }
      assert (InL : forall x, In x l1 -> In x (l1 ++ l2)) by (intros; apply in_or_app; auto).
      assert (InR : forall x, In x l2 -> In x (l1 ++ l2)) by (intros; apply in_or_app; auto).
      destruct c as [f|f|].
      * destruct (s f) eqn:Sf.
        -- apply (Go t at_ l1 o (sound_refine a s f S Sf) At InL C).
        -- apply (Go e ae l2 o S Ae InR C).
        -- apply (Go e ae l2 o S Ae InR C).
      * destruct (s f) eqn:Sf.
        -- apply (Go e ae l2 o (sound_refine a s f S Sf) Ae InR C).
        -- apply (Go t at_ l1 o S At InL C).
        -- apply (Go t at_ l1 o S At InL C).
      * destruct o as [|x o1].
        -- apply (Go e ae l2 [] S Ae InR C).
        -- destruct x.
           ++ apply (Go t at_ l1 o1 S At InL C).
           ++ apply (Go e ae l2 o1 S Ae InR C).
    + (* SReturn *) inversion A; subst. inversion C; subst. exists a. split; [left; reflexivity | auto].
    + (* SEffect *) eapply IH; eauto.
    + (* SOpaque *) discriminate.
Qed.


(* ---------- from the boolean obligation to every concrete run ---------- *)
Lemma definitely_reset_sound fuel ms m fields ok s o s' ret o' :
  definitely_reset fuel ms m fields = Some ok ->
  cexec fuel ms (ms m) s o = Some (s', ret, o') ->
  forall f, In f ok -> fresh (s' f) = true.
Proof.
  unfold definitely_reset. destruct (aexec fuel ms (ms m) (fun _ => false)) as [ps|] eqn:A; [|discriminate].
  intros H C f Hin. inversion H; subst. apply filter_In in Hin as [_ Hall].
  assert (S0 : sound (fun _ => false) s) by (intros g Hg; discriminate).
  destruct (aexec_sound _ _ _ _ _ _ _ _ _ _ S0 A C) as (a' & Hin' & S').
  rewrite forallb_forall in Hall. specialize (Hall _ Hin'). simpl in Hall. apply S'. exact Hall.
Qed.

Theorem reset_total : forall fuel leaves ms entry exempt,
  check_reset fuel leaves ms entry exempt = true ->
  forall s o s' ret o',
    cexec fuel (ms_of ms) (ms_of ms entry) s o = Some (s', ret, o') ->
    forall i, i < length leaves -> is_exempt exempt (origin_of leaves i) = false -> fresh (s' i) = true.
Proof.
  intros fuel leaves ms entry exempt H s o s' ret o' C i Hi Hex.
  unfold check_reset, unreset in H.
  destruct (definitely_reset fuel (ms_of ms) entry (all_idx (length leaves))) as [ok|] eqn:D; [|discriminate].
  eapply definitely_reset_sound; [exact D | exact C |].
  destruct (existsb (Nat.eqb i) ok) eqn:E.
  - apply existsb_exists in E as (x & Hx & Ex). apply Nat.eqb_eq in Ex. subst. exact Hx.
  - exfalso.
    assert (Hin : In i (filter (fun i0 => negb (existsb (Nat.eqb i0) ok) && negb (is_exempt exempt (origin_of leaves i0)))
                               (all_idx (length leaves)))).
    { apply filter_In. split.
      - unfold all_idx. apply in_seq. lia.
      - rewrite E, Hex. reflexivity. }
    destruct (filter _ _) as [|x l] eqn:F in H; [rewrite F in Hin; contradiction | discriminate].
Qed.
