From Coq Require Import String.
From Coq Require Import List Strings.Byte NArith Lia Bool Arith.
Require Import Bytes Show Tables Codec Norm Seg Norm2.
Import ListNotations.


Lemma nosl_nil : nosl []. Proof. intros []. Qed.
Lemma nosl_dd : nosl dd. Proof. intros [H|[H|[]]]; discriminate. Qed.

(* all segments before the first hit differ from X *)
Lemma first_nonlast_before X gs i : first_nonlast X gs = Some i -> Forall (fun g => g <> X) (firstn i gs).
Proof.
  revert i; induction gs as [|g gs IH]; intros i; simpl; [discriminate|].
  destruct (bs_eqb g X && negb (match gs with [] => true | _ => false end)) eqn:E.
  - intros H; inversion H; subst. constructor.
  - destruct (first_nonlast X gs) as [j|] eqn:F; simpl; [|discriminate].
    intros H; inversion H; subst. simpl. constructor; auto.
    intros ->. assert (bs_eqb X X = true) as Hx by (apply bs_eqb_eq; reflexivity). rewrite Hx in E.
    destruct gs; [discriminate|discriminate].
Qed.

Lemma first_nonlast_app_none X a b :
  Forall (fun g => g <> X) a -> first_nonlast X b = None -> first_nonlast X (a ++ b) = None.
Proof.
  induction a as [|g a IH]; simpl; intros F H; auto.
  inversion F; subst. assert (bs_eqb g X = false) as ->.
  { destruct (bs_eqb g X) eqn:E; auto. apply bs_eqb_eq in E. contradiction. }
  simpl. rewrite IH; auto.
Qed.

(* ---------------- loop 1 ---------------- *)

Lemma Forall_firstn {A} (P : A -> Prop) n l : Forall P l -> Forall P (firstn n l).
Proof. intros F. rewrite <- (firstn_skipn n l) in F. apply Forall_app in F. tauto. Qed.
Lemma Forall_skipn {A} (P : A -> Prop) n l : Forall P l -> Forall P (skipn n l).
Proof. intros F. rewrite <- (firstn_skipn n l) in F. apply Forall_app in F. tauto. Qed.

Theorem loop1_segments : forall fuel gs, Forall nosl gs -> length gs < fuel ->
  exists gs', loop1 fuel (render gs) = Some (render gs') /\ Forall nosl gs' /\
              first_nonlast [] gs' = None /\ length gs' <= length gs /\ (gs <> [] -> gs' <> []).
Proof.
  induction fuel as [|f IH]; intros gs F L; [lia|]. cbn [loop1].
  unfold pSS. rewrite (find_sub_render [] gs nosl_nil F).
  destruct (first_nonlast [] gs) as [i|] eqn:E; cbn [option_map].
  - destruct (first_nonlast_some _ _ _ E) as (rest & Hs & Hne).
    assert (Hsk : skipn (S (offset gs i)) (render gs) = render rest).
    { change (S (offset gs i)) with (1 + offset gs i). rewrite Nat.add_comm, skipn_add, skipn_offset, Hs. reflexivity. }
    rewrite Hsk, firstn_offset.
    assert (Lr : length rest < f).
    { assert (length gs = length (firstn i gs) + length (skipn i gs)) by (rewrite <- app_length, firstn_skipn; reflexivity).
      rewrite Hs in H. simpl in H. lia. }
    assert (Fr : Forall nosl rest).
    { pose proof (Forall_skipn _ i _ F) as X. rewrite Hs in X. inversion X; auto. }
    destruct (IH rest Fr Lr) as (r' & A & B & N & Len & Ne). rewrite A.
    exists (firstn i gs ++ r'). rewrite render_app. repeat split; auto.
    + apply Forall_app. split; auto. apply Forall_firstn. exact F.
    + apply first_nonlast_app_none; auto. apply (first_nonlast_before _ _ _ E).
    + rewrite app_length.
      assert (length gs = length (firstn i gs) + length (skipn i gs)) by (rewrite <- app_length, firstn_skipn; reflexivity).
      rewrite Hs in H. simpl in H. lia.
    + intros _ H. apply app_eq_nil in H as [_ H]. apply Ne in H; auto.
  - exists gs. repeat split; auto.
Qed.

(* ---------------- containment on segments ---------------- *)
(* no non-last segment is "", "." or ".." ; the last one is not ".." *)
Definition seg_ok (gs : list bs) : Prop :=
  gs <> [] /\ first_nonlast [] gs = None /\ first_nonlast [x2e] gs = None /\
  first_nonlast dd gs = None /\ last gs [] <> dd.
Print Assumptions loop1_segments.
