From Coq Require Import String.
From Coq Require Import List Strings.Byte NArith Lia Bool Arith.
Require Import Bytes Show Tables Codec Norm Seg Norm2 Norm3 Norm4 Norm5.
Import ListNotations.




Lemma render_snoc a g : render (a ++ [g]) = render a ++ sl :: g.
Proof. rewrite render_app. simpl. rewrite app_nil_r. reflexivity. Qed.

Lemma nosl_rev g : nosl g -> nosl (rev g).
Proof. intros N H. apply N. apply in_rev. exact H. Qed.

(* a rendered list ends with "/.." exactly when its last segment is ".." *)
Lemma suffix_dd a g : nosl g -> has_suffix pSDD (render (a ++ [g])) = true <-> g = dd.
Proof.
  intros N. rewrite render_snoc. unfold has_suffix, pSDD.
  rewrite rev_app_distr. simpl rev. rewrite <- app_assoc. simpl app.
  change ([x2e; x2e; sl]) with (dd ++ [sl]).
  rewrite has_prefix_spec. split.
  - intros [t E].
    rewrite <- app_assoc in E. change ([sl] ++ t) with (sl :: t) in E.
    apply has_prefix_app_nosl in E as [E _]; [| apply nosl_rev; exact N | exact nosl_dd].
    rewrite <- (rev_involutive g), E. reflexivity.
  - intros ->. simpl. exists (rev (render a)). reflexivity.
Qed.

(* the four postconditions on segments *)
Definition seg_ok (gs : list bs) : Prop :=
  gs <> [] /\ nonlast_free [] gs /\ nonlast_free [x2e] gs /\ nonlast_free dd gs /\ last gs [] <> dd.

Lemma last_snoc {A} (a : list A) g d : last (a ++ [g]) d = g.
Proof. induction a as [|x a IH]; simpl; auto. destruct (a ++ [g]) eqn:E; auto. destruct a; discriminate. Qed.

Lemma nonlast_free_snoc Y a g h : nonlast_free Y (a ++ [g]) -> nonlast_free Y (removelast a ++ [h]) \/ a = [].
Proof.
  intros H. destruct a as [|x a]; [right; reflexivity|left].
  intros p u q E Q.
  (* u is an element of removelast (x::a), hence a non-last element of (x::a) ++ [g] *)
  assert (Hs : exists q1, removelast (x :: a) = p ++ u :: q1).
  { destruct (le_lt_dec (length p + 1) (length (removelast (x :: a)))) as [Hin|Hout].
    - destruct (app_split_left _ _ _ _ _ E Hin) as (q1 & E1 & _). eauto.
    - destruct (app_split_right _ _ _ _ _ E Hout) as (p2 & E1 & E2).
      destruct p2; simpl in E2; inversion E2; subst; [congruence|]. destruct p2; discriminate. }
  destruct Hs as (q1 & E1).
  assert (E2 : x :: a = removelast (x :: a) ++ [last (x :: a) []]) by (apply app_removelast_last; discriminate).
  apply (H p u (q1 ++ [last (x :: a) []] ++ [g])).
  - rewrite E2 at 1. rewrite E1, <- !app_assoc. reflexivity.
  - intros X. apply app_eq_nil in X as [_ X]. discriminate.
Qed.

Theorem final_segments gs : Forall nosl gs -> gs <> [] ->
  nonlast_free [] gs -> nonlast_free [x2e] gs -> nonlast_free dd gs ->
  exists gs', final (render gs) = render gs' /\ Forall nosl gs' /\ seg_ok gs'.
Proof.
  intros F Hne F0 F1 F2.
  assert (exists a g, gs = a ++ [g]) as (a & g & ->).
  { exists (removelast gs), (last gs []). apply app_removelast_last. exact Hne. }
  assert (Ng : nosl g) by (apply Forall_app in F as [_ X]; inversion X; auto).
  unfold final. destruct (has_suffix pSDD (render (a ++ [g]))) eqn:S.
  - apply suffix_dd in S; auto. subst g.
    assert (Hn : firstn (length (render (a ++ [dd])) - 3) (render (a ++ [dd])) = render a).
    { rewrite render_snoc, app_length. simpl length.
      replace (length (render a) + 3 - 3) with (length (render a)) by lia.
      rewrite firstn_app, Nat.sub_diag, firstn_all. simpl. apply app_nil_r. }
    rewrite Hn.
    destruct a as [|x a] using rev_ind.
    + (* only ".." : result "/" *)
      simpl. exists [[]]. split; [reflexivity|]. split; [repeat constructor; apply nosl_nil|].
      repeat split; try discriminate.
      all: intros p u q E Q; destruct p as [|? p]; simpl in E; inversion E; subst.
      all: try (exfalso; apply Q; reflexivity).
      all: destruct p; discriminate.
    + clear IHa. rewrite rindex_render.
      2:{ apply Forall_app in F as [F' _]. apply Forall_app in F' as [_ X]. inversion X; auto. }
      exists (a ++ [[]]). split.
      * rewrite render_snoc. rewrite render_snoc. rewrite render_snoc.
        replace (S (length (render a))) with (length (render a) + 1) by lia.
        rewrite <- app_assoc. rewrite firstn_app.
        replace (length (render a) + 1 - length (render a)) with 1 by lia.
        rewrite firstn_all2 by lia. reflexivity.
      * split.
        { apply Forall_app in F as [F' _]. apply Forall_app in F' as [Fa _].
          apply Forall_app; split; [exact Fa | repeat constructor; apply nosl_nil]. }
        assert (K : forall Y, nonlast_free Y ((a ++ [x]) ++ [dd]) -> nonlast_free Y (a ++ [[]])).
        { intros Y H. destruct (nonlast_free_snoc Y (a ++ [x]) dd [] H) as [H'|H'].
          - rewrite removelast_last in H'. exact H'.
          - destruct a; discriminate. }
        repeat split; auto.
        -- destruct a; discriminate.
        -- rewrite last_snoc. discriminate.
  - exists (a ++ [g]). split; auto. split; [exact F|]. repeat split; auto.
    rewrite last_snoc. intros ->.
    assert (has_suffix pSDD (render (a ++ [dd])) = true) by (apply suffix_dd; auto). congruence.
Qed.

(* ---------------- the composed statement ---------------- *)

Lemma render_length_ge gs : length gs <= length (render gs).
Proof. induction gs as [|g gs IH]; simpl; auto. rewrite app_length. lia. Qed.

Theorem C07_contained_proto : forall gs, Forall nosl gs -> gs <> [] ->
  exists gs', normalize_tail (render gs) = Some (render gs') /\ Forall nosl gs' /\ seg_ok gs'.
Proof.
  intros gs F Hne. unfold normalize_tail.
  pose proof (render_length_ge gs) as L0.
  destruct (loop1_segments (S (length (render gs))) gs F) as (g1 & A1 & F1 & N1 & L1 & Ne1); [lia|].
  rewrite A1.
  destruct (loop2_cuts (S (length (render gs))) g1 F1) as (g2 & A2 & F2 & N2 & C2); [lia|].
  rewrite A2.
  assert (L2 : length g2 <= length g1).
  { clear -C2. induction C2; auto. rewrite app_length, firstn_length, skipn_length in IHC2. lia. }
  destruct (loop3_cuts (S (length (render gs))) g2 F2) as (g3 & A3 & F3 & N3 & C3); [lia|].
  rewrite A3.
  apply fnl_none_iff in N1, N2, N3.
  destruct (final_segments g3 F3) as (g4 & A4 & F4 & OK).
  - apply (cuts_nonnil _ _ C3). apply (cuts_nonnil _ _ C2). apply Ne1. exact Hne.
  - apply (cuts_free _ _ _ C3). apply (cuts_free _ _ _ C2). exact N1.
  - apply (cuts_free _ _ _ C3). exact N2.
  - exact N3.
  - exists g4. rewrite A4. auto.
Qed.
Print Assumptions C07_contained_proto.
