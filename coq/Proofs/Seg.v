(* C07 proofs: strings as rendered segment lists *)
From Coq Require Import String.
From Coq Require Import List Strings.Byte NArith Lia Bool Arith.
Require Import Bytes Show Tables Codec Norm .
Import ListNotations.


Definition nosl (g : bs) : Prop := ~ In sl g.

Fixpoint render (gs : list bs) : bs :=
  match gs with
  | [] => []
  | g :: gs' => sl :: g ++ render gs'
  end.


Lemma has_prefix_app_nosl (a b u v : bs) :
  nosl a -> nosl b -> a ++ sl :: u = b ++ sl :: v -> a = b /\ u = v.
Proof.
  revert b; induction a as [|x a IH]; intros [|y b] Na Nb E; simpl in *.
  - inversion E; auto.
  - inversion E; subst. exfalso. apply Nb. left; reflexivity.
  - inversion E; subst. exfalso. apply Na. left; reflexivity.
  - inversion E; subst. destruct (IH b) as [-> ->]; auto.
    + intros H; apply Na; right; exact H.
    + intros H; apply Nb; right; exact H.
Qed.

Lemma has_prefix_app p1 p2 s : has_prefix (p1 ++ p2) s = true <-> exists t, s = p1 ++ t /\ has_prefix p2 t = true.
Proof.
  rewrite has_prefix_spec. split.
  - intros [t ->]. rewrite <- app_assoc. exists (p2 ++ t). split; auto. apply has_prefix_spec. eauto.
  - intros [t [-> H]]. apply has_prefix_spec in H as [u ->]. exists u. rewrite app_assoc. reflexivity.
Qed.

(* searching a pattern that starts with '/' skips over slash-free bytes *)
Lemma find_sub_skip_nosl p g rest :
  nosl g -> find_sub (sl :: p) (g ++ rest) = option_map (fun k => length g + k) (find_sub (sl :: p) rest).
Proof.
  induction g as [|x g IH]; intros N; simpl.
  - destruct (find_sub (sl :: p) rest); reflexivity.
  - assert (Byte.eqb sl x = false) as Hx.
    { apply beqb_neq. intros E. apply N. left. symmetry. exact E. }
    rewrite Hx. simpl. rewrite IH by (intros H; apply N; right; exact H).
    destruct (find_sub (sl :: p) rest); reflexivity.
Qed.

(* prefix test of "/X/" at a segment boundary *)
Lemma has_prefix_pat X g gs :
  nosl X -> nosl g ->
  has_prefix (pat X) (render (g :: gs)) = true <-> (g = X /\ gs <> []).
Proof.
  intros NX Ng. unfold pat. simpl.
  rewrite has_prefix_spec. split.
  - intros [t E]. destruct gs as [|g2 gs]; simpl in E.
    + exfalso. rewrite app_nil_r in E. apply Ng. rewrite E. apply in_or_app. left.
      apply in_or_app. right. left. reflexivity.
    + rewrite <- app_assoc in E. simpl in E. symmetry in E.
      apply has_prefix_app_nosl in E as [-> _]; auto. split; [reflexivity | discriminate].
  - intros [-> Hne]. destruct gs as [|g2 gs]; [congruence|]. simpl.
    exists (g2 ++ render gs). rewrite <- app_assoc. reflexivity.
Qed.

Fixpoint first_nonlast (X : bs) (gs : list bs) : option nat :=
  match gs with
  | [] => None
  | g :: gs' => if bs_eqb g X && negb (match gs' with [] => true | _ => false end) then Some 0
                else option_map S (first_nonlast X gs')
  end.

Definition offset (gs : list bs) (i : nat) : nat := length (render (firstn i gs)).

Theorem find_sub_render X gs :
  nosl X -> Forall nosl gs ->
  find_sub (pat X) (render gs) = option_map (offset gs) (first_nonlast X gs).
Proof.
  intros NX. induction gs as [|g gs IH]; intros F.
  - simpl. unfold pat. simpl. reflexivity.
  - inversion F as [|? ? Ng Fgs]; subst. specialize (IH Fgs).
    destruct (has_prefix (pat X) (render (g :: gs))) eqn:HP.
    + (* match at 0 *)
      assert (find_sub (pat X) (render (g :: gs)) = Some 0) as ->.
      { simpl render. unfold find_sub; fold find_sub. simpl render in HP. rewrite HP. reflexivity. }
      apply has_prefix_pat in HP as [-> Hne]; auto.
      simpl. assert (bs_eqb X X = true) as -> by (apply bs_eqb_eq; reflexivity).
      destruct gs; [congruence|]. simpl. reflexivity.
    + (* no match at 0: skip '/' and the slash-free g *)
      assert (first_nonlast X (g :: gs) = option_map S (first_nonlast X gs)) as ->.
      { simpl. destruct (bs_eqb g X) eqn:Eg; simpl; auto.
        destruct gs as [|g2 gs2]; simpl; auto. exfalso.
        apply bs_eqb_eq in Eg. subst.
        assert (has_prefix (pat X) (render (X :: g2 :: gs2)) = true) by (apply has_prefix_pat; auto; split; [reflexivity|discriminate]).
        congruence. }
      simpl render. unfold find_sub; fold find_sub. simpl render in HP. rewrite HP.
      unfold pat at 1. rewrite find_sub_skip_nosl by auto. fold (pat X). rewrite IH.
      destruct (first_nonlast X gs) as [i|]; simpl; auto.
      f_equal. unfold offset. simpl. rewrite app_length. lia.
Qed.
Print Assumptions find_sub_render.
