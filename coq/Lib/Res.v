(* Outcomes of checked-access models: every Go index / slice expression whose bounds are not
   established by a dominating test is a checked access that can yield Panic. *)
From Coq Require Import String.
From Coq Require Import List Strings.Byte NArith Bool Arith.
Require Import Bytes.
Import ListNotations.

Inductive res (A : Type) := Ok (a : A) | Err | Panic.
Arguments Ok {A} a. Arguments Err {A}. Arguments Panic {A}.

Definition rbind {A B} (r : res A) (k : A -> res B) : res B :=
  match r with Ok a => k a | Err => Err | Panic => Panic end.
Notation "x <- e ;; k" := (rbind e (fun x => k)) (at level 61, e at next level, right associativity).

Definition is_panic {A} (r : res A) : bool := match r with Panic => true | _ => false end.

(* s[n:] *)
Definition slice_from (s : bs) (n : nat) : res bs := if n <=? length s then Ok (skipn n s) else Panic.
(* s[:n] *)
Definition slice_to (s : bs) (n : nat) : res bs := if n <=? length s then Ok (firstn n s) else Panic.
(* s[i] *)
Definition index (s : bs) (i : nat) : res byte := match nth_error s i with Some b => Ok b | None => Panic end.

(* bytes.IndexByte *)
Fixpoint index_byte (c : byte) (s : bs) : option nat :=
  match s with
  | [] => None
  | x :: r => if Byte.eqb x c then Some 0 else option_map S (index_byte c r)
  end.

Lemma index_byte_lt c s n : index_byte c s = Some n -> n < length s.
Proof.
  revert n; induction s as [|x r IH]; intros n; simpl; [discriminate|].
  destruct (Byte.eqb x c). { intros H; inversion H; subst. apply Nat.lt_0_succ. }
  destruct (index_byte c r) as [k|]; simpl; [|discriminate]. intros H; inversion H; subst.
  apply -> Nat.succ_lt_mono. apply IH. reflexivity.
Qed.
