(* Rendering of model results as byte strings (shared by every dispatch entry). *)
From Coq Require Import String.
From Coq Require Import List Strings.Byte NArith ZArith Bool.
Require Import Bytes.
Import ListNotations.

Definition n_of (b : byte) : N := Byte.to_N b.
Definition b_of (n : N) : byte := match Byte.of_N n with Some b => b | None => x00 end.

Definition lowerhex_digits : bs := B "0123456789abcdef".
Definition upperhex_digits : bs := B "0123456789ABCDEF".
Definition lowerhex (n : N) : byte := nth (N.to_nat n) lowerhex_digits x00.
Definition upperhex (n : N) : byte := nth (N.to_nat n) upperhex_digits x00.

Definition hex1 (c : byte) : bs := [lowerhex (N.shiftr (n_of c) 4); lowerhex (N.land (n_of c) 15)].
Definition hex_of (s : bs) : bs := flat_map hex1 s.

Fixpoint dec_digits (fuel : nat) (n : N) (acc : bs) : bs :=
  match fuel with
  | O => acc
  | S f => let d := b_of (48 + N.modulo n 10) in
           let q := N.div n 10 in
           if N.eqb q 0 then d :: acc else dec_digits f q (d :: acc)
  end.
Definition show_N (n : N) : bs := dec_digits (S (N.size_nat n)) n [].
Definition show_Z (z : Z) : bs :=
  match z with
  | Z0 => B "0"
  | Zpos p => show_N (Npos p)
  | Zneg p => x2d :: show_N (Npos p)
  end.
Definition show_nat (n : nat) : bs := show_N (N.of_nat n).
Definition show_bool (b : bool) : bs := if b then B "1" else B "0".

Fixpoint join (sep : bs) (l : list bs) : bs :=
  match l with
  | [] => []
  | [x] => x
  | x :: r => x ++ sep ++ join sep r
  end.

(* decimal parsing of an argument (harness -> model numbers) *)
Fixpoint parse_N_aux (s : bs) (acc : N) : N :=
  match s with
  | [] => acc
  | c :: r => parse_N_aux r (acc * 10 + (n_of c - 48))
  end.
Definition parse_N (s : bs) : N := parse_N_aux s 0.
Definition parse_Z (s : bs) : Z :=
  match s with
  | c :: r => if Byte.eqb c x2d then Z.opp (Z.of_N (parse_N r)) else Z.of_N (parse_N s)
  | [] => 0%Z
  end.
Definition parse_nat (s : bs) : nat := N.to_nat (parse_N s).
