(* prototype: byte-string library *)
From Coq Require Import String.
From Coq Require Import List Strings.Byte NArith Lia Bool Arith.
Import ListNotations.

Arguments Byte.eqb : simpl never.

Definition bs := list byte.
Definition B (s : string) : bs := list_byte_of_string s.

Definition all_bytes : list byte :=
  Eval vm_compute in
  (fix go (n : nat) (acc : list byte) :=
     match n with O => acc | S k =>
       match Byte.of_N (N.of_nat k) with Some b => go k (b :: acc) | None => go k acc end end) 256 [].

Lemma all_bytes_complete : forall b, In b all_bytes.
Proof.
  intros b. assert (H: existsb (Byte.eqb b) all_bytes = true) by (destruct b; vm_compute; reflexivity).
  apply existsb_exists in H. destruct H as [x [Hin Heq]].
  apply Byte.byte_dec_bl in Heq. subst. exact Hin.
Qed.

Lemma forall_byte (P : byte -> bool) : forallb P all_bytes = true -> forall b, P b = true.
Proof. intros H b. rewrite forallb_forall in H. apply H, all_bytes_complete. Qed.

Lemma beqb_eq a b : Byte.eqb a b = true <-> a = b.
Proof. split. apply Byte.byte_dec_bl. intros ->. apply Byte.byte_dec_lb. reflexivity. Qed.

Lemma beqb_refl a : Byte.eqb a a = true.
Proof. apply beqb_eq. reflexivity. Qed.

Lemma beqb_neq a b : Byte.eqb a b = false <-> a <> b.
Proof. split; intros H.
  - intros E. apply beqb_eq in E. congruence.
  - destruct (Byte.eqb a b) eqn:E; auto. apply beqb_eq in E. contradiction.
Qed.

Fixpoint bs_eqb (a b : bs) : bool :=
  match a, b with
  | [], [] => true
  | x :: a', y :: b' => Byte.eqb x y && bs_eqb a' b'
  | _, _ => false
  end.

Lemma bs_eqb_eq a b : bs_eqb a b = true <-> a = b.
Proof.
  revert b; induction a as [|x a IH]; intros [|y b]; simpl; split; intros H; try congruence; auto.
  - apply andb_true_iff in H as [H1 H2]. apply beqb_eq in H1. apply IH in H2. congruence.
  - inversion H; subst. rewrite beqb_refl. simpl. apply IH. reflexivity.
Qed.

(* has_prefix p s *)
Fixpoint has_prefix (p s : bs) : bool :=
  match p, s with
  | [], _ => true
  | x :: p', y :: s' => Byte.eqb x y && has_prefix p' s'
  | _ :: _, [] => false
  end.

Lemma has_prefix_spec p s : has_prefix p s = true <-> exists t, s = p ++ t.
Proof.
  revert s; induction p as [|x p IH]; intros s; simpl.
  - split; eauto.
  - destruct s as [|y s]; simpl.
    + split; [discriminate | intros [t H]; discriminate].
    + rewrite andb_true_iff, beqb_eq, IH. split.
      * intros [-> [t ->]]. eauto.
      * intros [t H]. inversion H; subst. eauto.
Qed.

(* occurs p s : p occurs as a contiguous substring of s *)
Definition occurs (p s : bs) : Prop := exists a b, s = a ++ p ++ b.

(* index of first occurrence (bytes.Index); None if absent. p assumed non-empty in uses *)
Fixpoint find_sub (p s : bs) : option nat :=
  if has_prefix p s then Some 0
  else match s with
       | [] => None
       | _ :: s' => option_map S (find_sub p s')
       end.

Lemma find_sub_none p s : find_sub p s = None -> ~ occurs p s.
Proof.
  induction s as [|y s IH]; simpl.
  - destruct (has_prefix p []) eqn:E; [discriminate|]. intros _ [a [b H]].
    symmetry in H. apply app_eq_nil in H as [-> H]. apply app_eq_nil in H as [-> ->].
    simpl in E. discriminate.
  - destruct (has_prefix p (y :: s)) eqn:E; [discriminate|].
    destruct (find_sub p s) eqn:F; simpl; [discriminate|]. intros _ [a [b H]].
    destruct a as [|z a]; simpl in H.
    + assert (has_prefix p (y :: s) = true) by (apply has_prefix_spec; eauto). congruence.
    + inversion H; subst. apply IH; auto. exists a, b. reflexivity.
Qed.

Lemma find_sub_some p s n : find_sub p s = Some n ->
  exists a b, s = a ++ p ++ b /\ length a = n /\ (forall a' b', s = a' ++ p ++ b' -> n <= length a').
Proof.
  revert n; induction s as [|y s IH]; intros n; simpl.
  - destruct (has_prefix p []) eqn:E; [|discriminate]. intros H; inversion H; subst.
    apply has_prefix_spec in E as [t Ht]. exists [], t. simpl. repeat split; auto. intros; lia.
  - destruct (has_prefix p (y :: s)) eqn:E.
    + intros H; inversion H; subst. apply has_prefix_spec in E as [t Ht].
      exists [], t. simpl. repeat split; auto. intros; lia.
    + destruct (find_sub p s) eqn:F; simpl; [|discriminate]. intros H; inversion H; subst.
      destruct (IH n0 eq_refl) as [a [b [Hs [Hl Hmin]]]].
      exists (y :: a), b. simpl. repeat split; [congruence | lia |].
      intros a' b' H'. destruct a' as [|z a']; simpl in *.
      * assert (has_prefix p (y :: s) = true) by (apply has_prefix_spec; eauto). congruence.
      * injection H' as _ H'. specialize (Hmin a' b' H'). lia.
Qed.
