(* C10 — client connections are exclusive, bounded, never leaked and never reused dirty. *)
From Coq Require Import String.
From Coq Require Import List Strings.Byte NArith Bool Arith.
Require Import Bytes Show Pool PoolProofs.
Import ListNotations.

(* `step` is the pool of pkg/protocol/http1/client.go as a transition system over its atomic
   sections (one label per critical section of connsLock / wantConn.mu, per dial result and per
   exchange outcome); callers, wantConn objects and connections carry identities.  `reachable g s`
   quantifies over EVERY finite sequence of labels from the empty pool: every interleaving of any
   number of callers, every choice of dial failure, exchange outcome (clean / Connection: close /
   closed before the first byte / any other error or timeout), wait timeout, context cancellation
   and idle-reaper run.  The deterministic multi-caller histories of unit c10.seq replay the real
   HostClient against `apply_op`, and `apply_op` only composes steps (last theorem). *)

(* a pooled connection carries at most one request at a time: no two calls hold the same
   connection, and a held connection is neither idle, nor closed, nor on its way to a waiter *)
Theorem C10_exclusive : forall g s t1 t2 c b1 b2, reachable g s ->
  pcs s t1 = Some (PHolding c b1) -> pcs s t2 = Some (PHolding c b2) -> t1 = t2.
Proof. intros g s t1 t2 c b1 b2 R. exact (exclusive g s (reachable_inv g s R) t1 t2 c b1 b2). Qed.
Print Assumptions C10_exclusive.

Theorem C10_held_is_nowhere_else : forall g s t c b, reachable g s -> pcs s t = Some (PHolding c b) ->
  ~ In c (idle s) /\ ~ In c (closed s) /\ (forall w, ws s w <> Some (WGot c)) /\ c < nc s.
Proof. intros g s t c b R. exact (held_elsewhere_nowhere g s (reachable_inv g s R) t c b). Qed.
Print Assumptions C10_held_is_nowhere_else.

Theorem C10_idle_connections_distinct_and_open : forall g s, reachable g s ->
  NoDup (idle s) /\ forall c, In c (idle s) -> ~ In c (closed s).
Proof. intros g s R. exact (idle_distinct_and_open g s (reachable_inv g s R)). Qed.
Print Assumptions C10_idle_connections_distinct_and_open.

(* the counted connections never exceed the maximum, and the count is exactly: dials in progress
   (by callers and in the background) + connections in use + idle + delivered-but-unclaimed *)
Theorem C10_bounded : forall g s, reachable g s ->
  count s <= maxc g /\
  count s = cnt is_dial (pcs s) (nt s) + length (dfor s) + cnt is_hold (pcs s) (nt s)
            + length (idle s) + cnt is_got (ws s) (nw s).
Proof.
  intros g s R. split; [exact (bounded g s (reachable_inv g s R))|exact (accounted g s (reachable_inv g s R))].
Qed.
Print Assumptions C10_bounded.

(* the pending-request gauge is the number of calls inside Do *)
Theorem C10_gauge : forall g s, reachable g s -> pending s = cnt anyb (pcs s) (nt s).
Proof. intros g s R. exact (gauge g s (reachable_inv g s R)). Qed.
Print Assumptions C10_gauge.

(* an exchange that did not complete cleanly closes its connection ... *)
Theorem C10_dirty_is_closed : forall g s t c ip o idem s',
  pcs s t = Some (PHolding c ip) -> o <> OClean ->
  step g s (LExchange t o idem) = Some s' -> In c (closed s').
Proof.
  intros g s t c ip o idem s' P N H. apply (dirty_is_closed g s t c ip o idem s' P); [|exact H].
  destruct (should_close o) eqn:E; [reflexivity|]. apply should_close_spec in E. contradiction.
Qed.
Print Assumptions C10_dirty_is_closed.

(* ... a closed connection stays closed and is never idle, held or delivered again ... *)
Theorem C10_closed_is_gone_for_good : forall g s c ls s', reachable g s -> In c (closed s) ->
  run g s ls = Some s' ->
  In c (closed s') /\ ~ In c (idle s') /\ (forall t b, pcs s' t <> Some (PHolding c b)) /\
  (forall w, ws s' w <> Some (WGot c)).
Proof.
  intros g s c ls. revert s. induction ls as [|l ls IH]; intros s s' R Hc H; cbn [run] in H.
  - inversion H; subst. destruct (closed_is_gone g s' (reachable_inv g s' R) c Hc) as (A & B & C & _). auto.
  - destruct (step g s l) as [s1|] eqn:E; [|discriminate].
    apply (IH s1); [eapply reachable_step; eauto|exact (closed_monotone g s l s1 E c Hc)|exact H].
Qed.
Print Assumptions C10_closed_is_gone_for_good.

(* ... and a connection goes back for reuse (idle stack or hand-over to a waiter) only through
   its holder's exchange, and only when that exchange was clean *)
Theorem C10_reuse_only_after_clean_exchange : forall g s l s' t c ip, reachable g s ->
  pcs s t = Some (PHolding c ip) -> step g s l = Some s' ->
  (In c (idle s') \/ exists w, ws s' w = Some (WGot c)) ->
  exists idem, l = LExchange t OClean idem.
Proof. intros g s l s' t c ip R. exact (reuse_only_after_clean_exchange g s l s' t c ip (reachable_inv g s R)). Qed.
Print Assumptions C10_reuse_only_after_clean_exchange.

(* once all calls have returned (and no background dial is still running): every counted
   connection is idle, no wantConn is alive, nothing is queued, the gauge is zero *)
Theorem C10_quiescence : forall g s, reachable g s ->
  (forall t, pcs s t = None) -> dfor s = [] ->
  count s = length (idle s) /\ pending s = 0 /\ (forall w, ws s w = None) /\ (0 < maxc g -> wq s = []).
Proof. intros g s R. exact (quiescent g s (reachable_inv g s R)). Qed.
Print Assumptions C10_quiescence.

(* a request that is not safe to repeat is sent at most once: after its one exchange the call has
   left Do, whatever the outcome, and a finished call never runs again *)
Theorem C10_non_idempotent_sent_once : forall g s t o s',
  step g s (LExchange t o false) = Some s' -> pcs s' t = None.
Proof. exact non_idempotent_single_attempt. Qed.
Print Assumptions C10_non_idempotent_sent_once.

Theorem C10_finished_stays_finished : forall g s l s' t,
  t < nt s -> pcs s t = None -> step g s l = Some s' -> t < nt s' /\ pcs s' t = None.
Proof. exact finished_call_stays_finished. Qed.
Print Assumptions C10_finished_stays_finished.

(* the correspondence check's macro operations are compositions of steps *)
Theorem C10_histories_are_runs : forall g s op, reachable g s -> reachable g (apply_op g s op).
Proof. exact apply_op_reachable. Qed.
Print Assumptions C10_histories_are_runs.

(* non-vacuity: a three-caller history on a one-connection pool with a waiter, a dirty exchange,
   a background dial and a clean hand-over; the final state is quiescent *)
Example C10_nonvacuous :
  pool_script [B "1"; B "1"; B "start:0"; B "start:0"; B "finish:0:closehdr:1:0"; B "finish:1:clean:1:0"]
  = B "count=1 idle=0 wait=0 pending=1 dials=1 closed=0 calls=0@0;count=1 idle=0 wait=1 pending=2 dials=1 closed=0 calls=0@0,1?;count=1 idle=0 wait=0 pending=1 dials=2 closed=1 calls=1@1;count=1 idle=1 wait=0 pending=0 dials=2 closed=1 calls=".
Proof. vm_compute. reflexivity. Qed.

Example C10_reachable_nonvacuous : exists s,
  reachable {| maxc := 1; waiton := true |} s /\ count s = 1 /\ wq s <> [] /\ exists t c, pcs s t = Some (PHolding c false).
Proof.
  eexists. split; [exists [LEnter; LAcquire 0; LDial 0 true; LEnter; LAcquire 1; LQueue 1]; vm_compute; reflexivity|].
  cbn. repeat split; try discriminate. exists 0, 0. reflexivity.
Qed.
