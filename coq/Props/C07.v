(* C07 — normalised request paths cannot climb out of the root.  Property theorems only. *)
From Coq Require Import String.
From Coq Require Import List Strings.Byte NArith Bool.
Require Import Bytes Show Tables Codec Norm CleanPath Seg NormTop CleanPathProofs.
Import ListNotations.

(* `contained p` (Proofs/NormTop.v): p = "/" ++ g1 ++ "/" ++ g2 ... for slash-free segments
   g1..gn (n >= 1, so p begins with '/'), no segment is "..", and no segment except possibly
   the last is "" or ".".  `normalize_path` is the transcription of protocol.normalizePath
   (addLeadingSlash + decodeArgAppendNoPlus + the four find-and-cut loops) on fuel; the theorem
   also says the fuel (length + 1) never runs out, i.e. the Go loops terminate. *)
Theorem C07_contained : forall src : bs,
  exists p, normalize_path src = Some p /\ contained p.
Proof. exact normalize_path_contained. Qed.
Print Assumptions C07_contained.

Example C07_nonvacuous :
  normalize_path (B "/a/%2e%2e/../b//./c/..") = Some (B "/b/") /\
  normalize_path (B "%2e%2e/%2e%2e/etc/passwd") = Some (B "/etc/passwd").
Proof. split; vm_compute; reflexivity. Qed.

(* utils.CleanPath (route registration and redirect-fixed-path; compared with `clean_path` on the
   enumerated space): for EVERY byte string the loop terminates within length+1 rounds and the
   result is contained in the same sense (begins with '/', no '..' segment, no empty or '.'
   segment except possibly the last). *)
Theorem C07_clean_path_contained : forall p : bs,
  exists q, clean_path p = Some q /\ contained q.
Proof. exact clean_path_contained. Qed.
Print Assumptions C07_clean_path_contained.

Example C07_clean_nonvacuous :
  clean_path (B "a/../../b/./c//") = Some (B "/b/c/") /\ clean_path (B "") = Some (B "/").
Proof. split; vm_compute; reflexivity. Qed.
