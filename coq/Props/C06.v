(* C06 — the router dispatches to the route the documented priority selects. *)
From Coq Require Import String.
From Coq Require Import List Strings.Byte NArith Bool Arith Permutation.
Require Import Bytes Show Router RouterProofs Radix RadixProofs RadixInsert.
Import ListNotations.

(* `find` is router.find's search (static, then parameter, then catch-all, backtracking) over the
   registered patterns; the real Engine is compared with it on every generated route set,
   registration order, method and path (unit c06.router).  `is_best` is the rule itself: the
   chosen pattern matches the path, and at the first token where it differs from any other
   matching pattern it has the stronger kind (literal or end < parameter < catch-all).
   For EVERY list of registered pattern texts and EVERY path: *)

(* a handler runs only for the best matching pattern; its parameter values are the substrings
   its wildcards matched (substituting them back gives the path, a named parameter holds no '/') *)
Theorem C06_dispatch : forall (pats : list bs) (path : bs) (h : nat) (vs : list bs),
  let rs := routes_of pats in
  find (fuel_for rs) rs path = Some (h, vs) ->
  exists p, is_best rs path p h /\ vs = pvalues p path /\ inst p vs = path /\ params_slash_free p vs.
Proof. exact route_dispatch. Qed.
Print Assumptions C06_dispatch.

(* when the search finds nothing, no registered pattern matches the path *)
Theorem C06_no_match_no_handler : forall (pats : list bs) (path : bs),
  let rs := routes_of pats in
  find (fuel_for rs) rs path = None -> forall p h, In (p, h) rs -> matches p path = false.
Proof. exact route_no_match. Qed.
Print Assumptions C06_no_match_no_handler.

(* and a matching pattern is never missed *)
Theorem C06_complete : forall fuel rs s p h,
  short fuel rs -> In (p, h) rs -> matches p s = true -> find fuel rs s <> None.
Proof. exact find_complete. Qed.
Print Assumptions C06_complete.

(* the outcome does not depend on the registration order: any permutation of the same routes
   (registration accepts a pattern shape once: `distinct`) answers every path alike *)
Theorem C06_order_independent : forall (pats : list bs) (rs' : list route) (path : bs),
  let rs := routes_of pats in
  Permutation rs rs' -> distinct rs ->
  find (fuel_for rs) rs' path = find (fuel_for rs) rs path.
Proof. exact route_order_independent. Qed.
Print Assumptions C06_order_independent.

(* the best match is unique, so the rule determines the outcome *)
Theorem C06_rule_is_deterministic : forall rs s p h q h',
  distinct rs -> is_best rs s p h -> is_best rs s q h' -> p = q /\ h = h'.
Proof. exact is_best_unique. Qed.
Print Assumptions C06_rule_is_deterministic.


(* the compressed tree.  `Radix.insert` / `add_route` are router.insert / addRoute (edge splitting,
   static / parameter / catch-all children); the real tree is compared node by node with the
   model's tree for every generated route set and registration order, and for each of them the
   model evaluates `wfb` and checks that the tree holds exactly the registered patterns.  For EVERY
   well-formed tree with a static root, the recursive lookup is the priority search over the
   routes the tree holds — so by C06_dispatch it returns the documented best match *)
Theorem C06_radix_lookup_is_the_search : forall (n : node) (s : bs) (f : nat),
  wf n -> nkind n = Sk -> short (S f) (paths n) ->
  ft n s = option_map fst (find (S f) (paths n) s).
Proof. exact radix_lookup_is_the_search. Qed.
Print Assumptions C06_radix_lookup_is_the_search.

(* EVERY tree that addRoute builds - any list of route texts that begin with '/', registered in any order, with
   any parameter and catch-all names - is well formed with a static root (or still the empty root): so the
   theorem above applies to every tree the router can hold, not only to those a run has checked with `wfb`.
   The proof (Proofs/RadixInsert.v) shows that every call of insert made by add_route is `safe` - the static
   text in front of a wildcard is inserted first, which puts a node boundary there - and that a safe insert
   keeps the tree `good` (well formed, wildcard nodes carry exactly ':' / '*', static edges contain neither). *)
Theorem C06_every_built_tree_is_well_formed : forall (pats : list bs) (order : list nat),
  (forall i, In i order -> exists r, nth i pats [] = sl :: r) ->
  let t := build_from empty_root pats order in t = empty_root \/ (wf t /\ nkind t = Sk).
Proof. exact built_tree_wf. Qed.
Print Assumptions C06_every_built_tree_is_well_formed.

Theorem C06_lookup_in_every_built_tree : forall (pats : list bs) (order : list nat) (s : bs) (f : nat),
  (forall i, In i order -> exists r, nth i pats [] = sl :: r) -> order <> [] ->
  let t := build_from empty_root pats order in
  short (S f) (paths t) -> ft t s = option_map fst (find (S f) (paths t) s).
Proof.
  intros pats order s f V Ne t Sh.
  destruct order as [|i order]; [congruence|]. cbn [build_from] in t.
  pose proof (register_ok empty_root (nth i pats []) i (or_introl eq_refl) (V i (or_introl eq_refl))) as St.
  pose proof (build_strong order pats _ St (fun j Hj => V j (or_intror Hj))) as (G & K & _).
  fold t in G, K. apply radix_lookup_is_the_search; [apply good_wf; exact G|exact K|exact Sh].
Qed.
Print Assumptions C06_lookup_in_every_built_tree.

(* ... and it holds exactly the declared routes: for EVERY list of route texts that begin with '/' and whose
   patterns (names erased) are pairwise distinct - hertz refuses a second registration of the same pattern -
   and EVERY registration order, a route is in the built tree iff it was declared ... *)
Theorem C06_built_tree_holds_exactly_the_declared_routes : forall (pats : list bs) (order : list nat),
  (forall i, In i order -> exists r, nth i pats [] = sl :: r) ->
  NoDup (map (fun i => pattern_of (nth i pats [])) order) ->
  forall r, In r (paths (build_from empty_root pats order)) <-> In r (declared pats order).
Proof. exact built_tree_routes. Qed.
Print Assumptions C06_built_tree_holds_exactly_the_declared_routes.

(* ... so the lookup in the compressed tree built by addRoute IS the documented priority search over the
   declared routes (with C06_dispatch: it returns the best matching declared pattern) *)
Theorem C06_tree_lookup_is_the_search_over_the_declared_routes :
  forall (pats : list bs) (order : list nat) (s : bs) (f : nat),
  (forall i, In i order -> exists r, nth i pats [] = sl :: r) ->
  NoDup (map (fun i => pattern_of (nth i pats [])) order) -> order <> [] ->
  short (S f) (declared pats order) ->
  ft (build_from empty_root pats order) s = option_map fst (find (S f) (declared pats order) s).
Proof. exact built_tree_lookup. Qed.
Print Assumptions C06_tree_lookup_is_the_search_over_the_declared_routes.

Theorem C06_wf_check_is_sound : forall n, wfb n = true -> wf n.
Proof. exact wfb_sound. Qed.
Print Assumptions C06_wf_check_is_sound.

Example C06_radix_nonvacuous :
  radix_script [B "2,0,1"; B "/ab/:x"; B "/a/*f"; B "/abc"] =
  B "wf=1 routes=1 " ++ [x53; x22] ++ B "/a" ++ [x22] ++ B "[" ++
    [x53; x22] ++ B "b" ++ [x22] ++ B "[" ++ [x53; x22] ++ B "c" ++ [x22] ++ B "=2[|-|-]," ++
       [x53; x22] ++ B "/" ++ [x22] ++ B "[|" ++ [x50; x22] ++ B ":" ++ [x22] ++ B "=0[|-|-]|-]|-|-]," ++
    [x53; x22] ++ B "/" ++ [x22] ++ B "[|-|" ++ [x41; x22] ++ B "*" ++ [x22] ++ B "=1[|-|-]]|-|-]".
Proof. vm_compute. reflexivity. Qed.

Example C06_nonvacuous :
  route_find false [B "/:a/x"; B "/*any"; B "/u/:id/f"; B "/u/me/f"] (B "/q/y") = B "H1 /*any any=712f79" /\
  route_find false [B "/:a/x"; B "/*any"; B "/u/:id/f"; B "/u/me/f"] (B "/u/me/f") = B "H3 /u/me/f " /\
  route_find false [B "/:a/x"; B "/*any"; B "/u/:id/f"; B "/u/me/f"] (B "/u/you/f") = B "H2 /u/:id/f id=796f75" /\
  route_find false [B "/:a/x"] (B "/q/y") = B "NONE" /\
  route_find true [B "/:a"; B "/a/:y/a/b"] (B "/a/%2F") = B "NONE".
Proof. vm_compute. repeat split; reflexivity. Qed.
