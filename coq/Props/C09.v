(* C09 — a recycled context, request or response is indistinguishable from a fresh one. *)
From Coq Require Import String.
From Coq Require Import List Arith Bool Strings.Byte.
Require Import Bytes Show ResetLang ResetModel ResetClass ResetProofs.
Import ListNotations.

(* Obligations over the data REGENERATED from the Go sources by the T2 translator: on every path
   through the (transitively inlined) Reset method, every leaf field of the struct - sub-objects
   expanded - is assigned a zero value, truncated to length 0, or reset by its own Reset, unless
   Model/ResetClass.v lists its origin as scratch / engine- or connection-scoped. *)
Definition fuel := 400.
Ltac ob := vm_compute; reflexivity.
Lemma ob_ResponseHeader : check_reset fuel R_ResponseHeader_leaves R_ResponseHeader_methods R_ResponseHeader_entry_Reset (exempt_for (B "Reset")) = true. Proof. ob. Qed.
Lemma ob_RequestHeader : check_reset fuel R_RequestHeader_leaves R_RequestHeader_methods R_RequestHeader_entry_Reset (exempt_for (B "Reset")) = true. Proof. ob. Qed.
Lemma ob_Request : check_reset fuel R_Request_leaves R_Request_methods R_Request_entry_Reset (exempt_for (B "Reset")) = true. Proof. ob. Qed.
Lemma ob_Request_keep : check_reset fuel R_Request_leaves R_Request_methods R_Request_entry_ResetWithoutConn (exempt_for (B "ResetWithoutConn")) = true. Proof. ob. Qed.
Lemma ob_Response : check_reset fuel R_Response_leaves R_Response_methods R_Response_entry_Reset (exempt_for (B "Reset")) = true. Proof. ob. Qed.
Lemma ob_URI : check_reset fuel R_URI_leaves R_URI_methods R_URI_entry_Reset (exempt_for (B "Reset")) = true. Proof. ob. Qed.
Lemma ob_Cookie : check_reset fuel R_Cookie_leaves R_Cookie_methods R_Cookie_entry_Reset (exempt_for (B "Reset")) = true. Proof. ob. Qed.
Lemma ob_Args : check_reset fuel R_Args_leaves R_Args_methods R_Args_entry_Reset (exempt_for (B "Reset")) = true. Proof. ob. Qed.
Lemma ob_Trailer : check_reset fuel R_Trailer_leaves R_Trailer_methods R_Trailer_entry_Reset (exempt_for (B "Reset")) = true. Proof. ob. Qed.
Lemma ob_RequestContext : check_reset fuel R_RequestContext_leaves R_RequestContext_methods R_RequestContext_entry_Reset (exempt_for (B "Reset")) = true. Proof. ob. Qed.
Lemma ob_RequestContext_keep : check_reset fuel R_RequestContext_leaves R_RequestContext_methods R_RequestContext_entry_ResetWithoutConn (exempt_for (B "ResetWithoutConn")) = true. Proof. ob. Qed.
Lemma ob_bodyStream : check_reset fuel R_bodyStream_leaves R_bodyStream_methods R_bodyStream_entry_reset (exempt_for (B "Reset")) = true. Proof. ob. Qed.
Lemma ob_httpStats : check_reset fuel R_httpStats_leaves R_httpStats_methods R_httpStats_entry_Reset (exempt_for (B "Reset")) = true. Proof. ob. Qed.

(* What an obligation means: for EVERY prior state s of the object (whatever any history of
   mutating calls left behind) and every way the opaque conditions turn out (oracle o), a run of
   the reset method leaves every non-exempt leaf observably fresh (zero or empty). *)
Definition recycles_to_fresh (leaves : list (bs * bs)) (ms : list (list stmt)) (entry : nat) (exempt : list bs) : Prop :=
  forall s o s' ret o',
    cexec fuel (ms_of ms) (ms_of ms entry) s o = Some (s', ret, o') ->
    forall i, i < length leaves -> is_exempt exempt (origin_of leaves i) = false -> fresh (s' i) = true.

Theorem C09_request_context_pool :
  recycles_to_fresh R_RequestContext_leaves R_RequestContext_methods R_RequestContext_entry_Reset (exempt_for (B "Reset")).
Proof. exact (reset_total _ _ _ _ _ ob_RequestContext). Qed.
Print Assumptions C09_request_context_pool.

Theorem C09_request_context_keepalive :
  recycles_to_fresh R_RequestContext_leaves R_RequestContext_methods R_RequestContext_entry_ResetWithoutConn (exempt_for (B "ResetWithoutConn")).
Proof. exact (reset_total _ _ _ _ _ ob_RequestContext_keep). Qed.
Print Assumptions C09_request_context_keepalive.

Theorem C09_request : recycles_to_fresh R_Request_leaves R_Request_methods R_Request_entry_Reset (exempt_for (B "Reset")).
Proof. exact (reset_total _ _ _ _ _ ob_Request). Qed.
Theorem C09_response : recycles_to_fresh R_Response_leaves R_Response_methods R_Response_entry_Reset (exempt_for (B "Reset")).
Proof. exact (reset_total _ _ _ _ _ ob_Response). Qed.
Theorem C09_request_header : recycles_to_fresh R_RequestHeader_leaves R_RequestHeader_methods R_RequestHeader_entry_Reset (exempt_for (B "Reset")).
Proof. exact (reset_total _ _ _ _ _ ob_RequestHeader). Qed.
Theorem C09_response_header : recycles_to_fresh R_ResponseHeader_leaves R_ResponseHeader_methods R_ResponseHeader_entry_Reset (exempt_for (B "Reset")).
Proof. exact (reset_total _ _ _ _ _ ob_ResponseHeader). Qed.
Theorem C09_uri : recycles_to_fresh R_URI_leaves R_URI_methods R_URI_entry_Reset (exempt_for (B "Reset")).
Proof. exact (reset_total _ _ _ _ _ ob_URI). Qed.
Theorem C09_cookie : recycles_to_fresh R_Cookie_leaves R_Cookie_methods R_Cookie_entry_Reset (exempt_for (B "Reset")).
Proof. exact (reset_total _ _ _ _ _ ob_Cookie). Qed.
Theorem C09_args : recycles_to_fresh R_Args_leaves R_Args_methods R_Args_entry_Reset (exempt_for (B "Reset")).
Proof. exact (reset_total _ _ _ _ _ ob_Args). Qed.
Theorem C09_trailer : recycles_to_fresh R_Trailer_leaves R_Trailer_methods R_Trailer_entry_Reset (exempt_for (B "Reset")).
Proof. exact (reset_total _ _ _ _ _ ob_Trailer). Qed.
Theorem C09_body_stream : recycles_to_fresh R_bodyStream_leaves R_bodyStream_methods R_bodyStream_entry_reset (exempt_for (B "Reset")).
Proof. exact (reset_total _ _ _ _ _ ob_bodyStream). Qed.
Theorem C09_http_stats : recycles_to_fresh R_httpStats_leaves R_httpStats_methods R_httpStats_entry_Reset (exempt_for (B "Reset")).
Proof. exact (reset_total _ _ _ _ _ ob_httpStats). Qed.
Print Assumptions C09_http_stats.

(* non-vacuity: a concrete dirty RequestContext (every leaf VOther) is driven to a state by the
   keep-alive reset within the fuel, for both answers of the first opaque condition *)
Example C09_nonvacuous :
  (exists r, cexec fuel (ms_of R_RequestContext_methods) (ms_of R_RequestContext_methods R_RequestContext_entry_ResetWithoutConn)
                  (fun _ => VOther) [true; true; true; true] = Some r) /\
  (exists r, cexec fuel (ms_of R_RequestContext_methods) (ms_of R_RequestContext_methods R_RequestContext_entry_ResetWithoutConn)
                  (fun _ => VOther) [] = Some r).
Proof. split; vm_compute; eexists; reflexivity. Qed.
