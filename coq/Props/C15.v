(* C15 — binding fills each field from the highest-priority source that carries it. *)
From Coq Require Import String.
From Coq Require Import List Strings.Byte NArith ZArith Bool Arith.
Require Import Bytes Show Bind BindProofs.
Import ListNotations.

(* `decide` is the per-field loop of base_type_decoder.go / slice_type_decoder.go over the tag list
   lookupFieldTags builds (path, form, query, cookie, header, then json), `run_fields` the decoder of
   a type, `bind_history` the binder with its per-type decoder cache; the real binder is compared
   with them on run-time generated struct types and requests (units c15.bind, c15.history).

   The rule, without the loop (`spec_decide`): the field takes the texts of the FIRST tag, in
   priority order, that is named (not "-") and present in the request — an empty single text gives
   way to a declared default; if no text source has it, a value in the JSON body (pre-bound) stays;
   if it is nowhere and some tag says `required`, that is an error; otherwise the declared default,
   otherwise the field is left alone.  For EVERY field description and EVERY request: *)
Theorem C15_priority_rule : forall (f : field) (q : request),
  json_last (f_tags f) -> decide f q = spec_decide f q.
Proof. exact decide_is_priority_rule. Qed.
Print Assumptions C15_priority_rule.

(* a missing required value is an error, never a silent zero: when no named source (text or JSON)
   carries the field and some tag is `required`, the outcome is the error *)
Theorem C15_required_is_an_error : forall f q,
  json_last (f_tags f) ->
  first_text (f_slice f) q (f_tags f) = None -> json_tag_has q (f_tags f) = false ->
  required_somewhere (f_tags f) = true -> bind_field f q = FErrRequired.
Proof.
  intros f q JL F J R. unfold bind_field. rewrite (decide_is_priority_rule f q JL).
  unfold spec_decide. rewrite F, J, R. reflexivity.
Qed.
Print Assumptions C15_required_is_an_error.

(* the result for a type is the same on first use and on every later use: over EVERY history of
   binds (any types, any order, cold or warm cache) each bind returns what a bind of that type
   alone returns *)
Theorem C15_history_independent : forall (types : nat -> list field) (h : list (nat * request)),
  bind_history types [] h = map (fun iq => run_fields (types (fst iq)) (snd iq)) h.
Proof. intros types h. apply history_independent. apply cache_ok_empty. Qed.
Print Assumptions C15_history_independent.

(* the integer conversions are strconv's: in range or an error, and a rendered number reads back *)
Theorem C15_int_in_range : forall bits s z, (0 < bits)%N -> parse_int bits s = Some z ->
  (- 2 ^ (Z.of_N bits - 1) <= z < 2 ^ (Z.of_N bits - 1))%Z.
Proof. exact parse_int_range. Qed.
Print Assumptions C15_int_in_range.

Theorem C15_uint_in_range : forall bits s z, parse_uint bits s = Some z -> (0 <= z < 2 ^ Z.of_N bits)%Z.
Proof. exact parse_uint_range. Qed.
Print Assumptions C15_uint_in_range.

Theorem C15_uint_reads_back : forall bits (n : N), (n < 2 ^ bits)%N -> parse_uint bits (show_N n) = Some (Z.of_N n).
Proof. exact parse_uint_show. Qed.
Print Assumptions C15_uint_reads_back.

Definition ex_field : field :=
  {| f_kind := KInt 8; f_slice := false; f_ptr := false; f_default := B "5";
     f_tags := [ {| t_src := SPath; t_name := B "a"; t_req := false; t_skip := false |};
                 {| t_src := SQuery; t_name := B "a"; t_req := true; t_skip := false |};
                 {| t_src := SJson; t_name := B "j"; t_req := false; t_skip := false |} ] |}.
Definition ex_req (path query : list (bs * bs)) (json : list (bs * list bs)) : request :=
  {| q_path := path; q_form := []; q_query := query; q_cookie := []; q_header := [];
     q_json := json; q_isjson := match json with [] => false | _ => true end |}.

Example C15_nonvacuous :
  bind_field ex_field (ex_req [(B "a", B "7")] [(B "a", B "9")] []) = FVal (B "7") /\
  bind_field ex_field (ex_req [] [(B "a", B "9")] [(B "j", [B "3"])]) = FVal (B "9") /\
  bind_field ex_field (ex_req [] [] [(B "j", [B "3"])]) = FVal (B "3") /\
  bind_field ex_field (ex_req [] [] []) = FErrRequired /\
  bind_field ex_field (ex_req [] [(B "a", B "")] []) = FVal (B "5") /\
  bind_field ex_field (ex_req [] [(B "a", B "300")] []) = FErrConv /\
  json_last (f_tags ex_field).
Proof. vm_compute. repeat split; try reflexivity; intros; discriminate. Qed.
