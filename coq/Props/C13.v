(* C13 — the buffered connection behaves as a lossless FIFO byte stream (reader spec). *)
From Coq Require Import String.
From Coq Require Import List Strings.Byte NArith Bool Arith.
Require Import Bytes Show Rd RdProofs LinkBuf LinkBufProofs LinkBufStable OutBuf OutBufProofs.
Import ListNotations.

(* `rd` is the reader specification every HTTP model is written against: a byte queue fed by a
   scripted source (any fragmentation; reads that fail with or without bytes), with
   standard.Conn's error behaviour.  The real connection is compared with it operation by
   operation (unit c13.reader).  For EVERY operation sequence over peek / skip / read byte /
   read copy / length / release and EVERY source script: the bytes consumed so far, followed by
   the bytes still buffered or still to arrive, are exactly the bytes of the stream. *)
Theorem C13_reader_fifo : forall (ops : list op) (r : rd),
  let '(consumed, r') := run_consumed ops r in stream r = consumed ++ stream r'.
Proof. exact fifo. Qed.
Print Assumptions C13_reader_fifo.

(* a peek returns the next bytes of the stream and consumes nothing *)
Theorem C13_peek_prefix : forall (i : nat) (r : rd), let '(b, e, r') := peek i r in
  stream r' = stream r /\ exists t, stream r = b ++ t.
Proof. exact peek_prefix. Qed.
Print Assumptions C13_peek_prefix.

(* without read errors the answer of a peek is a function of the remaining bytes alone: the
   first i bytes if there are that many, otherwise no bytes and the end-of-stream error —
   whatever the fragmentation (used by C02) *)
Theorem C13_peek_fragmentation_independent : forall i r1 r2,
  stored r1 = false -> stored r2 = false -> clean_src (src r1) -> clean_src (src r2) ->
  stream r1 = stream r2 -> fst (peek i r1) = fst (peek i r2).
Proof. exact peek_sched_indep. Qed.
Print Assumptions C13_peek_fragmentation_independent.

(* ---- the linked buffer as it is built (Model/LinkBuf.v; unit c13.linkbuf compares results and the node
   structure with the real standard.Conn after every operation) ----

   `Inv`: the read position is inside the node list, every node has off <= malloc <= cap, Len() equals the
   number of buffered unconsumed bytes, and the source keeps the net.Conn contract (no (0, nil) read).
   For EVERY initial size, EVERY source script and EVERY sequence of Peek / Skip / ReadByte / ReadBinary /
   Len / Release / Read: no operation runs off the node list (`SkCrash`), no fill calls Read with an empty
   buffer or spins (`FStuck`), the invariant holds afterwards, and the bytes handed out so far followed by the
   bytes still buffered or still to arrive are exactly the bytes the connection delivers. *)
Theorem C13_linkbuf_fifo : forall (size : nat) (src : list rres) (ops : list lop), src_ok src ->
  exists consumed s', lrun ops (init_lb size src) = Some (consumed, s') /\
                      srcbytes src = consumed ++ lstream s' /\ Inv s'.
Proof.
  intros size src ops OK. pose proof (lb_fifo ops (init_lb size src) (init_inv size src OK)) as H.
  destruct (lrun ops (init_lb size src)) as [[c s']|]; [|contradiction].
  destruct H as [I St]. exists c, s'. rewrite <- (init_stream size src). auto.
Qed.
Print Assumptions C13_linkbuf_fifo.

(* Release — whichever of its three branches runs, also the oversized-tail replacement — keeps the unread
   bytes and the invariant *)
Theorem C13_release_keeps_the_unread_bytes : forall s, Inv s ->
  Inv (lb_release s) /\ unread (lb_release s) = unread s /\ lsrc (lb_release s) = lsrc s.
Proof. exact lb_release_spec. Qed.
Print Assumptions C13_release_keeps_the_unread_bytes.

(* Peek(i) never gets stuck, changes nothing of the stream, returns the next bytes, and exactly i of them
   unless it reports an error *)
Theorem C13_linkbuf_peek : forall i s, Inv s ->
  match lb_peek i s with
  | PkOk b e s' => Inv s' /\ lstream s' = lstream s /\ b = firstn (length b) (unread s') /\
                   (e = false -> length b = i) /\ (length b <= i)%nat
  | PkStuck => False
  end.
Proof. exact lb_peek_spec. Qed.
Print Assumptions C13_linkbuf_peek.

(* "A slice returned by a peek stays unchanged until the next release", at the level of the model: over EVERY
   sequence of operations that contains no Release and no Read (which releases), the node list only grows at its
   end and the bytes of every node are only extended - so node k, bytes [off, off+len), reads the same bytes.
   (That the Go slices alias exactly this memory, and the mcache recycling behind Release, are outside the
   model: oracle of c13.reader.) *)
Theorem C13_peeked_bytes_stay_until_release : forall ops s c s',
  Inv s -> Forall quiet ops -> lrun ops s = Some (c, s') ->
  forall k n, nth_error (nodes s) k = Some n ->
  exists n' ext, nth_error (nodes s') k = Some n' /\ ndata n' = ndata n ++ ext.
Proof. intros ops s c s' I Q R. exact (quiet_ops_keep_nodes ops s c s' I Q R). Qed.
Print Assumptions C13_peeked_bytes_stay_until_release.

(* Len() is the number of buffered, unconsumed bytes in every reachable state: field inv_len of Inv *)
Theorem C13_len_is_buffered_unconsumed : forall s, Inv s -> llen s = length (unread s).
Proof. exact inv_len. Qed.

(* ---- the writer side as it is built (Model/OutBuf.v; unit c13.outbuf compares the node structure and the
   bytes the peer received after every operation) ----
   For EVERY sequence of Malloc (reserve + fill) / WriteBinary / Flush: by the time a Flush returns the peer
   has received exactly the concatenation of everything written, in order, and nothing is left buffered. *)
Theorem C13_flush_delivers_everything_written : forall ops : list wop,
  sent (wrun (ops ++ [WFlush]) ob_init) = concat (map payload ops) /\ pending (wrun (ops ++ [WFlush]) ob_init) = [].
Proof. exact flush_delivers_everything. Qed.
Print Assumptions C13_flush_delivers_everything_written.

(* at every moment: received ++ still buffered = everything written; and the invariant (every node within its
   capacity, the room recorded in outputBuffer.len really there) holds in every reachable state *)
Theorem C13_writer_fifo : forall (ops : list wop),
  OInv (wrun ops ob_init) /\ sent (wrun ops ob_init) ++ pending (wrun ops ob_init) = concat (map payload ops).
Proof. intros ops. exact (writer_fifo ops ob_init ob_init_inv). Qed.
Print Assumptions C13_writer_fifo.

Example C13_outbuf_nonvacuous :
  ob_script [B "M3,W4096,M2,F,M1,F"; B "abc" ++ repeat x41 4096 ++ B "dez"] <> [] /\
  sent (wrun [WMalloc (B "abc"); WWrite (repeat x41 4096); WMalloc (B "de"); WFlush] ob_init) = B "abc" ++ repeat x41 4096 ++ B "de".
Proof. split; [vm_compute; discriminate|vm_compute; reflexivity]. Qed.

Example C13_linkbuf_nonvacuous :
  lb_script [B "0"; B "P3,S2,X,B,L"; B "0ab"; B "0cde"] =
  B "P616263@len=5 max=4096 r=0 err=0 4096:5:0:0;S@len=3 max=4096 r=0 err=0 4096:5:2:0;X@len=3 max=4096 r=0 err=0 4096:5:2:1;B63@len=2 max=4096 r=0 err=0 4096:5:3:1;L2@len=2 max=4096 r=0 err=0 4096:5:3:1".
Proof. vm_compute. reflexivity. Qed.

Example C13_nonvacuous :
  rd_script [B "P3,S2,B,P9,L,R2,P1"; B "0ab"; B "0cde"; B "1fg"] = B "P616263 S B63 P64656667! L R6465 P66".
Proof. vm_compute. reflexivity. Qed.
