(* C13 — the buffered connection behaves as a lossless FIFO byte stream (reader spec). *)
From Coq Require Import String.
From Coq Require Import List Strings.Byte NArith Bool Arith.
Require Import Bytes Show Rd RdProofs.
Import ListNotations.

(* `rd` is the reader specification every HTTP model is written against: a byte queue fed by a
   scripted source (any fragmentation; reads that fail with or without bytes), with
   standard.Conn's error behaviour.  The real connection is compared with it operation by
   operation (unit c13.reader).  For EVERY operation sequence over peek / skip / read byte /
   read copy / length / release and EVERY source script: the bytes consumed so far, followed by
   the bytes still buffered or still to arrive, are exactly the bytes of the stream. *)
Theorem C13_reader_fifo : forall (ops : list op) (r : rd),
  let '(consumed, r') := run_consumed ops r in stream r = consumed ++ stream r'.
Proof. exact fifo. Qed.
Print Assumptions C13_reader_fifo.

(* a peek returns the next bytes of the stream and consumes nothing *)
Theorem C13_peek_prefix : forall (i : nat) (r : rd), let '(b, e, r') := peek i r in
  stream r' = stream r /\ exists t, stream r = b ++ t.
Proof. exact peek_prefix. Qed.
Print Assumptions C13_peek_prefix.

(* without read errors the answer of a peek is a function of the remaining bytes alone: the
   first i bytes if there are that many, otherwise no bytes and the end-of-stream error —
   whatever the fragmentation (used by C02) *)
Theorem C13_peek_fragmentation_independent : forall i r1 r2,
  stored r1 = false -> stored r2 = false -> clean_src (src r1) -> clean_src (src r2) ->
  stream r1 = stream r2 -> fst (peek i r1) = fst (peek i r2).
Proof. exact peek_sched_indep. Qed.
Print Assumptions C13_peek_fragmentation_independent.

Example C13_nonvacuous :
  rd_script [B "P3,S2,B,P9,L,R2,P1"; B "0ab"; B "0cde"; B "1fg"] = B "P616263 S B63 P64656667! L R6465 P66".
Proof. vm_compute. reflexivity. Qed.
