(* C18 — graceful shutdown lets in-flight requests finish and bounds the wait. *)
From Coq Require Import String.
From Coq Require Import List Strings.Byte NArith Bool Arith.
Require Import Bytes Show Pool PoolProofs Shutdown ShutdownProofs.
Import ListNotations.

(* `Shutdown.step` is the shutdown path as a transition system over its atomic steps: the status
   load and the compare-and-swap of Engine.Shutdown, the hooks, the listener close and the poll
   loop of transport.Shutdown, the accept loop, request arrival, the handler's return with the
   exit check, connection ends.  `reachable s` quantifies over EVERY finite sequence of these
   steps from a fresh engine: any number of connections in any state when any number of Shutdown
   calls start, in every interleaving.  The real server is replayed against `apply_op` on
   sequentialised histories (unit c18.seq); timings are exercised by c18.race / c18.double. *)

(* every request already received is answered completely: only its own handler's return removes
   a busy connection, and that return always writes a response *)
Theorem C18_busy_connection_survives_every_other_step : forall s l s' c, reachable s ->
  conns s c = Some CBusy -> Shutdown.step s l = Some s' -> (forall keep, l <> LReturn c keep) ->
  conns s' c = Some CBusy.
Proof. intros s l s' c R. exact (busy_connection_survives s l s' c (ShutdownProofs.reachable_inv s R)). Qed.
Print Assumptions C18_busy_connection_survives_every_other_step.

Theorem C18_return_always_answers : forall s c keep s',
  Shutdown.step s (LReturn c keep) = Some s' -> exists cl rn, resps s' = (c, cl, rn) :: resps s.
Proof. exact return_always_answers. Qed.
Print Assumptions C18_return_always_answers.

(* ... carrying Connection: close when the handler returned after shutdown began *)
Theorem C18_close_after_shutdown_began : forall s c cl, reachable s -> In (c, cl, false) (resps s) -> cl = true.
Proof. intros s c cl R. exact (close_after_shutdown_began s (ShutdownProofs.reachable_inv s R) c cl). Qed.
Print Assumptions C18_close_after_shutdown_began.

(* a Shutdown call that returns nil after the counter reached zero leaves no connection behind *)
Theorem C18_drained_means_no_connection : forall s k, reachable s ->
  callers s k = Some (SDone true true) -> active s = 0 /\ forall c, conns s c = None.
Proof. intros s k R. exact (drained_means_no_connection s (ShutdownProofs.reachable_inv s R) k). Qed.
Print Assumptions C18_drained_means_no_connection.

(* no new connection is accepted once a Shutdown call has closed the listener (so also after it
   returned) *)
Theorem C18_no_accept_afterwards : forall s k v, reachable s ->
  callers s k = Some v -> past_close v = true -> ln s = false /\ Shutdown.step s LAccept = None.
Proof. intros s k v R. exact (no_accept_after_close s (ShutdownProofs.reachable_inv s R) k v). Qed.
Print Assumptions C18_no_accept_afterwards.

(* a second shutdown reports an error: over all interleavings of any number of calls, at most one
   gets past the compare-and-swap and only that one can return nil *)
Theorem C18_only_one_shutdown_succeeds : forall s k1 k2 d1 d2, reachable s ->
  callers s k1 = Some (SDone true d1) -> callers s k2 = Some (SDone true d2) -> k1 = k2.
Proof. intros s k1 k2 d1 d2 R. exact (nil_result_is_unique s (ShutdownProofs.reachable_inv s R) k1 k2 d1 d2). Qed.
Print Assumptions C18_only_one_shutdown_succeeds.

(* and a shutdown of a server that is not running reports the error at once *)
Theorem C18_not_running_is_an_error : forall s s', is_running s = false ->
  Shutdown.step s LSLoad = Some s' -> callers s' (nk s) = Some (SDone false false).
Proof.
  intros s s' Rn H. cbn [Shutdown.step] in H. rewrite Rn in H. inversion H; subst. cbn. apply upd_same.
Qed.
Print Assumptions C18_not_running_is_an_error.

Theorem C18_histories_are_runs : forall s op, reachable s -> reachable (Shutdown.apply_op s op).
Proof. exact ShutdownProofs.apply_op_reachable. Qed.
Print Assumptions C18_histories_are_runs.

Example C18_nonvacuous :
  shutdown_script [B "run"; B "conn"; B "conn"; B "req:0"; B "shutdown"; B "shutdown"; B "rel:0:1"; B "drop:1"] =
  B "ln=1 sd= resp=;ln=1 sd= resp=;ln=1 sd= resp=;ln=1 sd= resp=;ln=0 sd=pending resp=;ln=0 sd=pending,err resp=;ln=0 sd=pending,err resp=0c;ln=0 sd=nil-drained,err resp=0c".
Proof. vm_compute. reflexivity. Qed.
