(* C04 — every response put on the wire is one well-formed, correctly framed message (framing core). *)
From Coq Require Import String.
From Coq Require Import List Strings.Byte NArith ZArith Bool Arith.
Require Import Bytes Show Tables Codec Chunk ChunkProofs RespFrame RespFrameProofs Range RangeProofs DecProofs
               Ser SerSkel SerProofs.
Import ListNotations.

(* the statuses that are sent without a body are exactly RFC 7230's: 1xx, 204, 304 — for every
   integer status (model transcribes the fast/slow path over the regenerated status constants) *)
Theorem C04_bodyless_statuses : forall s : Z,
  must_skip_content_length s = true <-> (100 <= s < 200 \/ s = 204 \/ s = 304)%Z.
Proof. exact must_skip_spec. Qed.
Print Assumptions C04_bodyless_statuses.

(* the hijacked chunked writer: for every pattern of writes (any sizes below 16^15, empty writes
   anywhere) an independent chunked reader recovers exactly the bytes written and stops exactly
   behind the last-chunk line, so the next response starts where this one ends *)
Theorem C04_chunked_writer : forall (writes : list bs) (rest : bs),
  Forall (fun p => (N.of_nat (length p) < 16 ^ 15)%N) writes ->
  dechunk (S (length (filter (fun p => negb (is_nil p)) writes))) 0 (chunked_writer_body writes ++ rest) []
  = DOk (concat writes) rest.
Proof. exact chunked_writer_decodes. Qed.
Print Assumptions C04_chunked_writer.

(* Content-Length is rendered by AppendUint and read back exactly *)
Theorem C04_content_length_roundtrip : forall n : Z, (0 <= n < two63)%Z -> parse_uint (show_Z n) = Some n.
Proof. exact parse_uint_show. Qed.

(* the header block of every response is a start part plus sanitised lines (C05's theorem for the
   regenerated skeleton of ResponseHeader.AppendBytes) *)
Theorem C04_header_block_shape : forall evs r, exec_b skel_ResponseHeader_AppendBytes evs r ->
  exists start ls, evs_bytes evs = start ++ flat_map line (sanitised ls) ++ CRLF.
Proof.
  intros evs r X.
  assert (S : safe_skeleton skel_ResponseHeader_AppendBytes = true) by (vm_compute; reflexivity).
  destruct (safe_block _ evs r S X) as (start & ls & E & _). eauto.
Qed.
Print Assumptions C04_header_block_shape.

Example C04_nonvacuous :
  chunked_writer_body [B "HT"; []; B "TP/"] = B "2" ++ CRLF ++ B "HT" ++ CRLF ++ B "3" ++ CRLF ++ B "TP/" ++ CRLF ++ B "0" ++ CRLF
  /\ must_skip_content_length 204 = true /\ must_skip_content_length 200 = false /\ must_skip_content_length 99 = false.
Proof. repeat split; vm_compute; reflexivity. Qed.
