(* C20 — validation expressions follow the documented operator precedence. *)
From Coq Require Import String.
From Coq Require Import List Arith Bool ZArith Strings.Byte.
Require Import Bytes Show Tables Rot RotProofs.
Import ListNotations.

(* Side condition on the REGENERATED priority table (getPriority's type switch): every binary
   operator has a priority below that of operands/groups.  Computed, then lifted. *)
Lemma priority_table_ok : table_ok = true.
Proof. vm_compute. reflexivity. Qed.

(* The documented order: * / %  above  + -  above  < <= > >=  above  == !=  above  &&  above || *)
Lemma priority_table_documented :
  map (fun c => prio_of_op c) [x2a; x2f; x25; x2b; x2d; x3c; x4c; x3e; x47; x45; x4e; x26; x7c]
  = map Some [6; 6; 6; 5; 5; 4; 4; 4; 4; 3; 3; 2; 1].
Proof. vm_compute. reflexivity. Qed.

(* For every left chain (what parseExprNode builds: every right child is an operand or a group,
   recursively) whose operators have priority < 7, the rotation loop of sortPriority terminates
   within inv t + 1 passes and returns exactly the precedence-climbing tree `spec t`
   (left-associative right-spine insertion), whatever the length and nesting. *)
Theorem C20_shape : forall t : tree, chainlike t -> ops_lt_top t ->
  iter (S (inv t)) t = Some (spec t).
Proof. exact sort_is_spec. Qed.
Print Assumptions C20_shape.

(* ... and therefore for every token string the model parser accepts. *)
Theorem C20_shape_parsed : forall s : bs, sort_shape s = spec_shape s.
Proof. exact (parsed_sort_is_spec priority_table_ok). Qed.
Print Assumptions C20_shape_parsed.

Example C20_nonvacuous :
  sort_shape (B "1+2*3E7|(4-5-6)&8") = B "G((((1 + (2 * 3)) == 7) || (G(((4 - 5) - 6)) && 8)))".
Proof. vm_compute. reflexivity. Qed.
