(* C05 — header-setting APIs cannot be used to inject lines into a message. *)
From Coq Require Import String.
From Coq Require Import List Strings.Byte NArith Bool.
Require Import Bytes Show Tables Ser SerSkel SerProofs.
Import ListNotations.

(* Structural obligations on the skeletons REGENERATED from pkg/protocol by the T3 translator:
   after the start-line emissions every statement is a call of appendHeaderLine (under any
   if / loop), and the block ends with the literal CRLF.  Computed, then used by the theorems. *)
Lemma request_skeleton_safe : safe_skeleton skel_RequestHeader_AppendBytes = true.
Proof. vm_compute. reflexivity. Qed.
Lemma response_skeleton_safe : safe_skeleton skel_ResponseHeader_AppendBytes = true.
Proof. vm_compute. reflexivity. Qed.
Lemma trailer_skeleton_safe : safe_skeleton skel_Trailer_AppendBytes = true.
Proof. vm_compute. reflexivity. Qed.
(* appendHeaderLine itself is the function modelled by `append_header_line` *)
Lemma header_line_skeleton : skel_eqb skel_appendHeaderLine expected_appendHeaderLine = true.
Proof. vm_compute. reflexivity. Qed.

(* What every run appends, whatever bytes the application supplied for every name, value, cookie,
   content type, trailer (the Atoms: `exec_b` lets each take ANY byte string, anew in every loop
   iteration, and decides every condition either way): some start bytes, then a block that the
   strict reader (CRLF line ends only, a bare CR or LF is an error, `name ": " value` with a
   non-empty name) decodes to exactly the executed header lines whose name is a valid non-empty
   token — values with CR/LF replaced by spaces — followed by the empty line, nothing left over. *)
Definition injection_free (p : list ser) : Prop :=
  forall evs r, exec_b p evs r ->
  exists start ls,
    evs_bytes evs = start ++ flat_map line (sanitised ls) ++ CRLF /\
    strict_lines (S (length (sanitised ls))) (flat_map line (sanitised ls) ++ CRLF) = Some (sanitised ls, []) /\
    Forall clean (sanitised ls).

Theorem C05_request : injection_free skel_RequestHeader_AppendBytes.
Proof. intros evs r. exact (safe_block _ evs r request_skeleton_safe). Qed.
Print Assumptions C05_request.

Theorem C05_response : injection_free skel_ResponseHeader_AppendBytes.
Proof. intros evs r. exact (safe_block _ evs r response_skeleton_safe). Qed.
Print Assumptions C05_response.

Theorem C05_trailer : injection_free skel_Trailer_AppendBytes.
Proof. intros evs r. exact (safe_block _ evs r trailer_skeleton_safe). Qed.
Print Assumptions C05_trailer.

(* the hostile classic: a value carrying CRLF + a header line stays one field *)
Example C05_nonvacuous :
  append_header_line (B "X-A") (B "v" ++ CRLF ++ B "Injected: 1") = B "X-A: v  Injected: 1" ++ CRLF /\
  append_header_line (B "X" ++ CRLF ++ B "Y") (B "v") = [] /\
  exec_b [Raw (Atom (B "start")); Loop [HLine (Atom (B "k")) (Atom (B "v"))]; Ret [Raw (Lit CRLF)]]
         [ERaw (B "GET / HTTP/1.1" ++ CRLF); ELine (B "A") (B "1"); ELine (B "B") CRLF; ERaw CRLF] true.
Proof.
  split; [vm_compute; reflexivity|]. split; [vm_compute; reflexivity|].
  apply (X_cons _ _ [ERaw (B "GET / HTTP/1.1" ++ CRLF)] [ELine (B "A") (B "1"); ELine (B "B") CRLF; ERaw CRLF]).
  { constructor. exact I. }
  apply (X_cons _ _ [ELine (B "A") (B "1"); ELine (B "B") CRLF] [ERaw CRLF]).
  { apply (X_loop_S _ [ELine (B "A") (B "1")] [ELine (B "B") CRLF]).
    - apply (X_cons _ _ [ELine (B "A") (B "1")] []); [constructor; exact I | constructor].
    - apply (X_loop_S _ [ELine (B "B") CRLF] []).
      + apply (X_cons _ _ [ELine (B "B") CRLF] []); [constructor; exact I | constructor].
      + constructor. }
  apply X_cons_ret. apply (X_ret _ [ERaw CRLF] false).
  apply (X_cons _ _ [ERaw CRLF] []); [constructor; reflexivity | constructor].
Qed.
