(* C02 — message parsing does not depend on how bytes are split into reads. *)
From Coq Require Import String.
From Coq Require Import List Strings.Byte NArith Bool Arith.
Require Import Bytes Show Tables Rd RdProofs HeaderBlock Retry TrailerKeys HeaderNameProofs HeaderScan ScanStable ReqHead RespHead HeadStable.
Import ListNotations.

(* The read loop of req.ReadHeader / resp.ReadHeader / ext.ReadTrailer
     n := 1; loop { Peek(n); parse everything buffered; need more => n := Len() or n+1 }
   for ANY parser that is stable when its input is extended (a verdict on a prefix is the verdict
   on every extension; "need more" otherwise): two readers holding the same bytes, fragmented in
   any two ways, end with the same result, the same remaining bytes, or the same premature end. *)
Theorem C02_read_loop_fragmentation_independent :
  forall (A E : Type) (parse : bs -> pres A E),
  (forall p n x q, parse p = POk A E n x -> parse (p ++ q) = POk A E n x) ->
  (forall p n x, parse p = POk A E n x -> n <= length p) ->
  (forall p e q, parse p = PErr A E e -> parse (p ++ q) = PErr A E e) ->
  forall f1 f2 n1 n2 r1 r2 o1 o2,
  whole r1 = whole r2 ->
  read_loop A E parse f1 n1 r1 = Some o1 -> read_loop A E parse f2 n2 r2 = Some o2 ->
  obs A E o1 = obs A E o2.
Proof. exact sched_indep. Qed.
Print Assumptions C02_read_loop_fragmentation_independent.

(* The header-block boundary (everything up to the empty line; what all three readers wait for
   before the in-place header scanner runs) is such a parser: whatever the fragmentation, the
   scanner is handed the same complete block. *)
Theorem C02_header_block_fragmentation_independent : forall f1 f2 n1 n2 r1 r2 o1 o2,
  whole r1 = whole r2 ->
  read_loop bs unit block_parse f1 n1 r1 = Some o1 ->
  read_loop bs unit block_parse f2 n2 r2 = Some o2 ->
  obs bs unit o1 = obs bs unit o2.
Proof. exact header_block_sched_indep. Qed.
Print Assumptions C02_header_block_fragmentation_independent.

(* The field scanner itself (ext.HeaderScanner.Next over the whole buffer, compared with `hs_next` / `scan_all` by
   unit c01.scanner): once the buffer holds a complete header block, its verdict - the fields in order and
   where the block ends, or "invalid name" - is the verdict on EVERY extension of the buffer.  (On a buffer
   that ends right behind a field line the scanner cannot know whether a continuation line follows: that is
   why req/resp/trailer readers scan only complete blocks, the repair of D5.) *)
Theorem C02_scanner_verdict_is_stable_on_complete_blocks : forall (f n : nat) (b q : bs),
  header_block_len b = Some n ->
  match scan_all f b with
  | SFields fs rest => scan_all f (b ++ q) = SFields fs (rest ++ q)
  | SInvalid fs => scan_all f (b ++ q) = SInvalid fs
  | SNeedMore _ => True
  end.
Proof. intros f n b q H. apply scan_stable. apply (header_block_cmpl _ _ H). Qed.
Print Assumptions C02_scanner_verdict_is_stable_on_complete_blocks.

(* ... so the read loop run with the real scanner (wait for a complete block, then scan everything buffered)
   gives the same fields, the same remaining bytes or the same premature end, however the bytes are cut *)
Theorem C02_header_fields_fragmentation_independent : forall f1 f2 n1 n2 r1 r2 o1 o2,
  whole r1 = whole r2 ->
  read_loop _ _ fields_parse f1 n1 r1 = Some o1 -> read_loop _ _ fields_parse f2 n2 r2 = Some o2 ->
  obs _ _ o1 = obs _ _ o2.
Proof. exact fields_sched_indep. Qed.
Print Assumptions C02_header_fields_fragmentation_independent.

(* The whole request head (request line, then the fields of a complete block; `req_head_parse`: method, target,
   version and fields, or which part is bad) and the whole response head (`resp_head_parse`: version, status code,
   fields) are extension-stable parsers, so for ANY two fragmentations of the same bytes the read loop ends with
   the same head and the same remaining bytes, the same error, or the same premature end. *)
Theorem C02_request_head_fragmentation_independent : forall f1 f2 n1 n2 r1 r2 o1 o2,
  whole r1 = whole r2 ->
  read_loop _ _ req_head_parse f1 n1 r1 = Some o1 -> read_loop _ _ req_head_parse f2 n2 r2 = Some o2 ->
  obs _ _ o1 = obs _ _ o2.
Proof. exact request_head_sched_indep. Qed.
Print Assumptions C02_request_head_fragmentation_independent.

Theorem C02_response_head_fragmentation_independent : forall f1 f2 n1 n2 r1 r2 o1 o2,
  whole r1 = whole r2 ->
  read_loop _ _ resp_head_parse f1 n1 r1 = Some o1 -> read_loop _ _ resp_head_parse f2 n2 r2 = Some o2 ->
  obs _ _ o1 = obs _ _ o2.
Proof. exact response_head_sched_indep. Qed.
Print Assumptions C02_response_head_fragmentation_independent.

(* body readers only Peek / Skip: without read errors a Peek answers from the bytes alone *)
Theorem C02_peek_fragmentation_independent : forall i r1 r2,
  stored r1 = false -> stored r2 = false -> clean_src (src r1) -> clean_src (src r2) ->
  stream r1 = stream r2 -> fst (peek i r1) = fst (peek i r2).
Proof. exact peek_sched_indep. Qed.

(* the scanner's in-place key normalisation is idempotent: re-reading a normalised name is a no-op *)
Theorem C02_key_normalisation_idempotent : forall s : bs,
  normalize_header_key (normalize_header_key s) = normalize_header_key s.
Proof. exact normalize_header_key_idem. Qed.
Print Assumptions C02_key_normalisation_idempotent.

Example C02_nonvacuous :
  header_block_len (B "A: b" ++ [x0d; x0a] ++ B " c" ++ [x0d; x0a; x0d; x0a] ++ B "rest") = Some 12 /\
  header_block_len (B "A: b" ++ [x0d; x0a] ++ B " c" ++ [x0d; x0a; x0d]) = None /\
  normalize_header_key (B "cONTENT-lENGTH") = B "Content-Length".
Proof. repeat split; vm_compute; reflexivity. Qed.
