(* C16 — hz-generated router code registers exactly the routes declared in the IDL. *)
From Coq Require Import String.
From Coq Require Import List Strings.Byte NArith Bool Arith Permutation.
Require Import Bytes Show HzRouter HzProofs HzInterp.
Import ListNotations.

(* `build` is RouterNode.Update (FindNearest + Insert + Sort) folded over the declared methods,
   `emit_root` is DyeGroupName + the router.go template, `interp` the meaning of the printed
   statements on an engine.  The real generator's Register body is compared statement by
   statement with `emit_root (build ...)`, and what it registers on a real engine with `interp`
   (unit c16.router).  For EVERY list of declarations (any verbs, paths, names; both modes of the
   nearest-prefix search): *)

(* the tree holds exactly the declared routes: each declaration once, under the path elements of
   its path, with its handler and verb — nothing lost, duplicated or attached elsewhere *)
Theorem C16_tree_holds_exactly_the_declared_routes : forall sortr alias (ds : list decl),
  (forall d, In d ds -> split_path (d_path d) <> []) ->
  Permutation (flat [] (build sortr alias ds)) (map (route_of alias) ds).
Proof. exact build_holds_declared. Qed.
Print Assumptions C16_tree_holds_exactly_the_declared_routes.

(* and the path elements of a declaration spell its path *)
Theorem C16_path_elements_spell_the_path : forall q, concat (map (cons sl) (split_path (sl :: q))) = sl :: q.
Proof. exact split_path_spells. Qed.
Print Assumptions C16_path_elements_spell_the_path.

(* no duplicate identifiers: every group variable declared in Register (blocks included) has its
   own name, whatever collides after mangling *)
Theorem C16_group_variables_distinct : forall t ss, emit_root t = Some ss -> NoDup (defs ss).
Proof. exact group_variables_distinct. Qed.
Print Assumptions C16_group_variables_distinct.

(* the unique-name table never hands out a name twice *)
Theorem C16_unique_name_is_fresh : forall name used u used',
  unique_name name used = Some (u, used') -> mem u used = false /\ used' = u :: used.
Proof. exact unique_name_fresh. Qed.
Print Assumptions C16_unique_name_is_fresh.

(* adding one declaration adds exactly its route, whatever the tree looks like *)
Theorem C16_update_adds_one_route : forall sortr paths h n pre, paths <> [] ->
  Permutation (flat pre (update sortr paths h n))
              ((pre ++ [n_path n] ++ map (cons sl) paths, h) :: flat pre n).
Proof. exact update_adds. Qed.
Print Assumptions C16_update_adds_one_route.


(* the whole translation, end to end on the model: for EVERY list of declarations whose paths have
   no empty interior segment, running the generated Register body (Go block scoping, hertz group and
   path joining; `interp` with any sufficient fuel) succeeds — no undefined or redeclared variable —
   and registers exactly the declared routes: one registration per declaration, with its verb,
   its own path, its handler and one middleware per path element, the root group's first *)
Theorem C16_generated_program_registers_exactly_the_declared_routes : forall sortr alias (ds : list decl) ss,
  (forall d, In d ds -> clean (split_path (d_path d)) /\ split_path (d_path d) <> []) ->
  emit_root (build sortr alias ds) = Some ss ->
  exists rs e' F, (forall F', F <= F' -> interp F' ss env0 = Some (rs, e')) /\
    Permutation (map key_of_reg rs) (map key_of_route (map (route_of alias) ds)) /\
    Forall (fun r => exists t, r_chain r = B "rootMw" :: t) rs.
Proof. exact generated_program_registers_the_declared_routes. Qed.
Print Assumptions C16_generated_program_registers_exactly_the_declared_routes.

Theorem C16_key_of_a_declaration : forall alias d q, d_path d = sl :: q ->
  key_of_route (route_of alias d) =
  (http_method (d_verb d), sl :: q, alias ++ B "." ++ d_name d, S (length (split_path (sl :: q)))).
Proof. exact key_of_declared. Qed.
Print Assumptions C16_key_of_a_declaration.

Example C16_nonvacuous :
  hz_router [B "0"; B "GET"; B "/a"; B "GetA"; B "POST"; B "/a/b-c/:id"; B "PostAB"; B "Any"; B "/a/b_c/*rest"; B "AnyR"] =
  join [x0a] [B "G|root|r|/|rootMw"; B "H|root|GET|/a|_getaMw|api.GetA"; B "G|_a|root|/a|_aMw";
              B "{"; B "G|_b_c|_a|/b-c|_b_cMw"; B "H|_b_c|POST|/:id|_postabMw|api.PostAB"; B "}";
              B "{"; B "G|_b_c0|_a|/b_c|_b_c0Mw"; B "H|_b_c0|Any|/*rest|_anyrMw|api.AnyR"; B "}"] /\
  hz_interp [B "0"; B "GET"; B "/a"; B "GetA"; B "POST"; B "/a/b-c/:id"; B "PostAB"] =
  join [x0a] [B "GET /a rootMw,_getaMw api.GetA"; B "POST /a/b-c/:id rootMw,_aMw,_b_cMw,_postabMw api.PostAB"].
Proof. vm_compute. split; reflexivity. Qed.
