(* C14 — a streamed request body reads exactly the body and keeps the connection in sync
   (fixed-length and chunked bodies). *)
From Coq Require Import String.
From Coq Require Import List Strings.Byte NArith ZArith Bool Arith.
Require Import Bytes Show Tables Chunk ChunkProofs BodyStream BodyStreamProofs ChunkStreamProofs Prefetch PrefetchProofs.
Import ListNotations.

(* For every declared length n, every prefetched part p (at most n bytes), every continuation w of
   the connection that holds the rest of the message (and whatever follows it), every consumption
   program (any buffer sizes, any amount the connection hands out per read, stopping anywhere):
   - the bytes read are a prefix of the body,
   - the stream never delivers or takes from the wire more than the message holds,
   - EOF is reported only at the end of the body,
   - after the handler returned, skipRest leaves the connection exactly at the first byte after
     the body: the next request is parsed from there. *)
Theorem C14_fixed_length_stream : forall n p w prog b eof s',
  length p <= n -> n <= length (p ++ w) ->
  run_reads prog (fresh n p w) = (b, eof, s') ->
  let T := p ++ w in
  b = firstn (offset s') (firstn n T)
  /\ offset s' <= n
  /\ (eof = true -> offset s' = n)
  /\ wire s' = skipn (Nat.max (offset s') (length p)) T
  /\ wire (skip_rest s') = skipn n T.
Proof. exact stream_correct. Qed.
Print Assumptions C14_fixed_length_stream.


(* Chunked bodies.  For every list of chunks (non-empty, shorter than 16^15), everything `rest` that
   follows the message on the connection, and every consumption program (any buffer sizes,
   stopping anywhere): the bytes read are a prefix of the concatenated chunk data, EOF is
   reported only at its end, no read fails, and skipRest then leaves the connection exactly at
   the first byte after the message — wherever the handler stopped, also in the middle of a chunk. *)
Theorem C14_chunked_stream : forall cs rest prog b eof s',
  Forall chunk_ok cs ->
  crun_reads prog (cfresh (enchunk cs ++ CRLF ++ rest)) = (b, eof, s') ->
  (exists tail, concat cs = b ++ tail /\ (eof = true -> tail = [])) /\
  exists s'', cskip_rest (length cs + 2) s' = Some s'' /\ cwire s'' = rest.
Proof. exact chunked_stream_correct. Qed.
Print Assumptions C14_chunked_stream.

Example C14_chunked_nonvacuous :
  let w := enchunk [B "abc"; B "de"] ++ CRLF ++ B "GET /next" in
  let '(b, eof, s') := crun_reads [2; 2] (cfresh w) in
  b = B "abc" /\ eof = false /\
  match cskip_rest 4 s' with Some s'' => cwire s'' = B "GET /next" | None => False end /\
  stream_script [B "chunked"; w; B "2,9"] = B "6162;636465<EOF> | 474554202f6e657874".
Proof. vm_compute. repeat split; reflexivity. Qed.

Example C14_nonvacuous :
  let '(b, eof, s') := run_reads [(3, 1); (100, 2); (100, 100)] (fresh 6 (B "ab") (B "cdefGET /next")) in
  b = B "abcdef" /\ eof = true /\ wire (skip_rest s') = B "GET /next".
Proof. vm_compute. repeat split; reflexivity. Qed.

(* The hypothesis `length p <= n` of C14_fixed_length_stream is what ext.ReadBodyWithStreaming must establish
   (Model/Prefetch.v: the number of bytes it takes off the connection, compared with the code by unit
   c14.prefetch for every declared length, limit, buffer capacity and arrival pattern).
   Within the size limit it does: exactly min(Content-Length, 8 KiB) bytes are taken. *)
Theorem C14_prefetch_within_the_limit : forall cl limit cap avail, (cl <= eff_limit limit)%nat ->
  prefetch cl limit cap avail = Nat.min cl max_in_stream /\ (prefetch cl limit cap avail <= cl)%nat.
Proof. exact prefetch_within_limit. Qed.
Print Assumptions C14_prefetch_within_the_limit.

(* Above the limit it does NOT: the faithful model takes more bytes than the body holds (Content-Length 100, limit
   50, a fresh buffer, 4096 bytes buffered: 1024 bytes are taken).  This is the witness of known finding D27;
   replayed on the code by c14.prefetch / c14.stream (classes prefixed over-limit-body). *)
Theorem C14_prefetch_over_the_limit_refuted : exists cl limit cap avail,
  (eff_limit limit < cl)%nat /\ (cl < prefetch cl limit cap avail)%nat.
Proof. exact prefetch_over_limit_refuted. Qed.
Print Assumptions C14_prefetch_over_the_limit_refuted.
