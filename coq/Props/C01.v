(* C01 — the server frames and orders requests exactly as the wire says (framing core). *)
From Coq Require Import String.
From Coq Require Import List Strings.Byte NArith ZArith Bool Arith.
Require Import Bytes Show Tables Codec Chunk ChunkProofs TrailerKeys HeaderNameProofs Range RangeProofs DecProofs.
Import ListNotations.

(* Chunked framing: for EVERY list of non-empty chunks (any sizes below 16^15, any contents —
   also contents that look like chunk headers or requests) the chunked reader recovers exactly
   the concatenation and stops exactly behind the last-chunk line, whatever follows. *)
Theorem C01_dechunk_enchunk : forall (cs : list bs) (rest acc : bs), Forall chunk_ok cs ->
  dechunk (S (length cs)) 0 (enchunk cs ++ rest) acc = DOk (acc ++ concat cs) rest.
Proof. exact dechunk_enchunk. Qed.
Print Assumptions C01_dechunk_enchunk.

(* every chunk size the writer can render is read back exactly (ReadHexInt . WriteHexInt),
   within the 15 hex digits maxHexIntChars allows (regenerated constant) *)
Theorem C01_chunk_size_roundtrip : forall (n : N) (rest : bs), (n < 16 ^ 15)%N ->
  read_hex_int (write_hex n ++ CR :: rest) 0 0 = HexOk n (CR :: rest).
Proof. exact read_write_hex. Qed.
Print Assumptions C01_chunk_size_roundtrip.

(* Content-Length numerals *)
Theorem C01_content_length_roundtrip : forall n : Z, (0 <= n < two63)%Z -> parse_uint (show_Z n) = Some n.
Proof. exact parse_uint_show. Qed.

(* Only names that equal Content-Length / Transfer-Encoding ignoring ASCII case are taken for
   them: the comparison used for framing names is exactly ASCII case folding (ascii_lower is an
   independent arithmetic definition, the implementation's table is regenerated). *)
Theorem C01_only_framing_names : forall name ref : bs,
  ci_compare name ref = true <-> map ascii_lower name = map ascii_lower ref.
Proof. exact ci_compare_spec. Qed.
Print Assumptions C01_only_framing_names.

Example C01_nonvacuous :
  enchunk [B "ab"; B "0" ++ CRLF ++ CRLF ++ B "GET /evil"] = B "2" ++ CRLF ++ B "ab" ++ CRLF ++ B "e" ++ CRLF ++ B "0" ++ CRLF ++ CRLF ++ B "GET /evil" ++ CRLF ++ B "0" ++ CRLF
  /\ ci_compare (B "Content" ++ [x0d] ++ B "Length") (B "Content-Length") = false
  /\ ci_compare (B "cOnTeNt-lEnGtH") (B "Content-Length") = true.
Proof. repeat split; vm_compute; reflexivity. Qed.
