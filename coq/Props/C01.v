(* C01 — the server frames and orders requests exactly as the wire says (framing core). *)
From Coq Require Import String.
From Coq Require Import List Strings.Byte NArith ZArith Bool Arith.
Require Import Bytes Show Tables Codec Chunk ChunkProofs TrailerKeys HeaderNameProofs Range RangeProofs DecProofs UintWrap HeaderScan HeaderScanProofs ReqHead ReqHeadProofs RespFrame RespHead RespHeadProofs.
Import ListNotations.

(* Chunked framing: for EVERY list of non-empty chunks (any sizes below 16^15, any contents —
   also contents that look like chunk headers or requests) the chunked reader recovers exactly
   the concatenation and stops exactly behind the last-chunk line, whatever follows. *)
Theorem C01_dechunk_enchunk : forall (cs : list bs) (rest acc : bs), Forall chunk_ok cs ->
  dechunk (S (length cs)) 0 (enchunk cs ++ rest) acc = DOk (acc ++ concat cs) rest.
Proof. exact dechunk_enchunk. Qed.
Print Assumptions C01_dechunk_enchunk.

(* every chunk size the writer can render is read back exactly (ReadHexInt . WriteHexInt),
   within the 15 hex digits maxHexIntChars allows (regenerated constant) *)
Theorem C01_chunk_size_roundtrip : forall (n : N) (rest : bs), (n < 16 ^ 15)%N ->
  read_hex_int (write_hex n ++ CR :: rest) 0 0 = HexOk n (CR :: rest).
Proof. exact read_write_hex. Qed.
Print Assumptions C01_chunk_size_roundtrip.

(* Content-Length numerals *)
Theorem C01_content_length_roundtrip : forall n : Z, (0 <= n < two63)%Z -> parse_uint (show_Z n) = Some n.
Proof. exact parse_uint_show. Qed.

(* Content-Length numerals with ANY number of digits (also those whose 64-bit wrap the overflow test
   misses, D20): an accepted numeral consists of digits only, and the length taken is the true value
   or else it is at least 2^63/10 while the true value is at least 2^63 - so with any body-size limit
   below 2^63/10 a declared length is either framed exactly or refused as too large. *)
Theorem C01_content_length_any_numeral : forall (s : bs) (w : Z), parse_uint s = Some w ->
  Forall is_digit s /\ (0 <= w < two63)%Z /\
  (w = val_from 0 s \/ (wrap_floor <= w /\ two63 <= val_from 0 s)%Z).
Proof. exact parse_uint_any. Qed.
Print Assumptions C01_content_length_any_numeral.

(* Only names that equal Content-Length / Transfer-Encoding ignoring ASCII case are taken for
   them: the comparison used for framing names is exactly ASCII case folding (ascii_lower is an
   independent arithmetic definition, the implementation's table is regenerated). *)
Theorem C01_only_framing_names : forall name ref : bs,
  ci_compare name ref = true <-> map ascii_lower name = map ascii_lower ref.
Proof. exact ci_compare_spec. Qed.
Print Assumptions C01_only_framing_names.

(* The header scanner (ext.HeaderScanner.Next, compared with `hs_next` on every generated block by unit
   c01.scanner).  For EVERY list of fields whose names are non-empty, hold no ':' or LF and do not
   start with a blank, and whose values hold no CR or LF and neither start nor end with a space:
   scanning the block a serialiser writes for them (`name: value CRLF` per field, then the empty
   line) returns exactly these fields in order, names in canonical case, and stops at the first
   byte after the empty line — whatever follows. *)
Theorem C01_scanner_reads_back_a_rendered_block : forall (fs : list (bs * bs)) (body : bs) (fuel : nat),
  Forall field_ok fs -> (length fs < fuel)%nat ->
  scan_all fuel (render_block fs ++ body) = SFields (map (fun kv => (normalize_header_key (fst kv), snd kv)) fs) body.
Proof. exact block_reads_back. Qed.
Print Assumptions C01_scanner_reads_back_a_rendered_block.

Theorem C01_field_line_reads_back : forall k v rest,
  k <> [] -> ~ In COLON k -> ~ In LF k ->
  ~ In CR v -> ~ In LF v -> no_lead_sp v -> no_trail_sp v -> starts_plain rest ->
  hs_next (k ++ [COLON; SPC] ++ v ++ CRLF ++ rest) = NField (normalize_header_key k) v rest.
Proof. exact field_line_reads_back. Qed.
Print Assumptions C01_field_line_reads_back.

Example C01_scanner_nonvacuous :
  header_scan [B "host: h" ++ CRLF ++ B "X-Fold: a" ++ CRLF ++ B "  b" ++ CRLF ++ CRLF ++ B "body"] =
  B "OK 486f7374=68;582d466f6c64=61202062 | 27".
Proof. vm_compute. reflexivity. Qed.

(* The request head (req.ReadHeader, compared with `req_head` on every generated head by unit
   c01.reqhead).  The request line a client writes is read back: method, target (it may contain
   spaces) and version, and parsing stops behind the line. *)
Theorem C01_request_line_reads_back : forall m u rest,
  m <> [] -> ~ In SPC m -> ~ In LF m -> u <> [] -> ~ In LF u ->
  parse_first_line (m ++ [SPC] ++ u ++ [SPC] ++ bytestr_StrHTTP11 ++ CRLF ++ rest) = FLOk m u true rest.
Proof. exact first_line_reads_back. Qed.
Print Assumptions C01_request_line_reads_back.

(* Framing: whenever the head is accepted and some field is a Transfer-Encoding other than
   identity, the message is chunked (content length -1) — whatever Content-Length fields come
   before or after it, in whatever letter case. *)
Theorem C01_transfer_encoding_wins : forall fs st c e,
  frame_of fs st = inl (c, e) -> existsb is_te_chunked fs = true ->
  (forall kv, In kv fs -> fst kv <> []) -> c = (-1)%Z.
Proof. exact transfer_encoding_wins. Qed.
Print Assumptions C01_transfer_encoding_wins.

Example C01_reqhead_nonvacuous :
  req_head [B "POST /a b HTTP/1.1" ++ CRLF ++ B "content-length: 5" ++ CRLF ++ B "Transfer-Encoding: chunked" ++ CRLF ++ CRLF ++ B "x"] =
  B "OK 504f5354 2f612062 1 -1 69" /\
  req_head [B "GET / HTTP/1.1" ++ CRLF ++ B "Content-Length: 12x" ++ CRLF ++ CRLF] = B "BAD length".
Proof. vm_compute. split; reflexivity. Qed.

Example C01_nonvacuous :
  enchunk [B "ab"; B "0" ++ CRLF ++ CRLF ++ B "GET /evil"] = B "2" ++ CRLF ++ B "ab" ++ CRLF ++ B "e" ++ CRLF ++ B "0" ++ CRLF ++ CRLF ++ B "GET /evil" ++ CRLF ++ B "0" ++ CRLF
  /\ ci_compare (B "Content" ++ [x0d] ++ B "Length") (B "Content-Length") = false
  /\ ci_compare (B "cOnTeNt-lEnGtH") (B "Content-Length") = true.
Proof. repeat split; vm_compute; reflexivity. Qed.

(* Connection persistence as the server takes it from a request head (RequestHeader.ConnectionClose, compared with
   the code by c01.reqhead): a final "Connection: close" (any letter case of the name) ends the connection after
   this request whatever came before, and a request of another version than HTTP/1.1 without a keep-alive token
   does too - EVERY field list. *)
Theorem C01_final_connection_close_closes : forall h11 fs name,
  name <> [] -> ci_compare name bytestr_StrConnection = true ->
  req_close h11 (fs ++ [(name, bytestr_StrClose)]) = true.
Proof. exact req_close_last_field. Qed.
Theorem C01_http10_without_keep_alive_closes : forall fs, no_keep_alive fs -> req_close false fs = true.
Proof. exact req_close_http10. Qed.
Print Assumptions C01_final_connection_close_closes.
Example C01_persistence_nonvacuous :
  req_close true [(B "Connection", B "keep-alive")] = false /\ req_close false [(B "Connection", B "x, Keep-Alive")] = false /\
  req_close true [] = false /\ req_close false [] = true.
Proof. repeat split; vm_compute; reflexivity. Qed.
