(* C19 — tracer start/finish calls pair up exactly once per request, in causal order. *)
From Coq Require Import String.
From Coq Require Import List Strings.Byte NArith Bool Arith.
Require Import Bytes Show Serve ServeProofs.
Import ListNotations.

(* `crun Closed log = Some Closed` (Proofs/ServeProofs.v) says of a call log: starts and finishes
   strictly alternate beginning with a start and ending closed (no finish without an unmatched
   start, no start left open); at most one request is handled inside a pair, and then the finish
   carries exactly that request and its stage list contains the handler stage; and every finish's
   stage list is HS, the pipeline stages in order with every started stage finished, HF
   (`stages_ok`).  `serve` is the transcription of Server.Serve's loop with its event stack and
   traceStarted flag; the theorem is for EVERY script of per-request outcomes, of any length, ending with the
   peer closing or with a read timeout. *)
Theorem C19_pairs_brackets_stages : forall (tmo : bool) (script : list outcome),
  crun Closed (serve tmo script) = Some Closed.
Proof. exact serve_wellformed. Qed.
Print Assumptions C19_pairs_brackets_stages.

(* "The finish carries that request's data": the error a Finish call finds in the trace info (Stats().Error()) is
   the error of its own exchange — set exactly when that request's head was malformed, its body could not be read
   or its response could not be written — and never one left by an earlier request of the connection, for EVERY
   script of outcomes.  (The trace info starts clean: Reset on its way through the pool, compared between
   connections of one engine by unit c19.data.) *)
Theorem C19_finish_error_is_its_own : forall (tmo : bool) (script : list outcome),
  finish_errors (serve tmo script) = own_errors tmo 1 script.
Proof. exact finish_error_is_own. Qed.
Print Assumptions C19_finish_error_is_its_own.

Example C19_nonvacuous :
  serve_trace (B "kkb") =
  B "S H:/r1 F:/r1:hs,rhs,rhf,rbs,rbf,shs,shf,ws,wf,hf:- S H:/r2 F:/r2:hs,rhs,rhf,rbs,rbf,shs,shf,ws,wf,hf:- S F:/r3:hs,rhs,rhf,rbs,rbf,hf:err"
  /\ crun Closed [TStart; Handled 1; TFinish (Some 1) [HS; RHS; RHF; RBS; RBF; SHS; SHF; WS; WF; HF] false; TFinish None [HF] false] = None
  /\ own_errors false 1 [OKeep; OKeep; OBodyErr; OKeep] = [false; false; true].
Proof. repeat split; vm_compute; reflexivity. Qed.
