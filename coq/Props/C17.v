(* C17 — URI, query-string and cookie codecs round-trip.  Property theorems only. *)
From Coq Require Import String.
From Coq Require Import List Strings.Byte NArith Bool.
Require Import Bytes Show Tables Codec CodecProofs.
Import ListNotations.

(* Decoding a quoted argument gives the argument back, for every byte string. *)
Theorem C17_unquote_quote : forall s : bs, decode_arg (quote s) = s.
Proof. exact unquote_quote. Qed.
Print Assumptions C17_unquote_quote.

(* For every ordered list of arguments (noValue entries carry no value — true of every
   constructor of Args), parsing the encoded query string returns the same list, entries
   with both key and value empty excepted; the fuel of the model never runs out. *)
Theorem C17_args_roundtrip : forall l : list kv, Forall wf l ->
  parse (S (length l)) (encode l) = Some (filter nonempty l).
Proof. exact args_roundtrip. Qed.
Print Assumptions C17_args_roundtrip.

Example C17_args_nonvacuous :
  Forall wf [ {| key := B "a b"; value := B "1&2=%"; noValue := false |};
              {| key := B ""; value := B ""; noValue := true |};
              {| key := B "k"; value := B ""; noValue := true |} ] /\
  args_parse (encode [ {| key := B "a b"; value := B "1&2=%"; noValue := false |};
              {| key := B ""; value := B ""; noValue := true |};
              {| key := B "k"; value := B ""; noValue := true |} ])
  = Some [ {| key := B "a b"; value := B "1&2=%"; noValue := false |};
           {| key := B "k"; value := B ""; noValue := true |} ].
Proof. split; [repeat constructor; unfold wf; simpl; auto; discriminate | vm_compute; reflexivity]. Qed.
