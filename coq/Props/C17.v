(* C17 — URI, query-string and cookie codecs round-trip.  Property theorems only. *)
From Coq Require Import String.
From Coq Require Import List Strings.Byte NArith Bool.
Require Import Bytes Show Res Tables Codec CodecProofs Range Cookie CookieProofs Norm NormTop UriSplit Uri UriProofs.
Import ListNotations.

(* Decoding a quoted argument gives the argument back, for every byte string. *)
Theorem C17_unquote_quote : forall s : bs, decode_arg (quote s) = s.
Proof. exact unquote_quote. Qed.
Print Assumptions C17_unquote_quote.

(* For every ordered list of arguments (noValue entries carry no value — true of every
   constructor of Args), parsing the encoded query string returns the same list, entries
   with both key and value empty excepted; the fuel of the model never runs out. *)
Theorem C17_args_roundtrip : forall l : list kv, Forall wf l ->
  parse (S (length l)) (encode l) = Some (filter nonempty l).
Proof. exact args_roundtrip. Qed.
Print Assumptions C17_args_roundtrip.

Example C17_args_nonvacuous :
  Forall wf [ {| key := B "a b"; value := B "1&2=%"; noValue := false |};
              {| key := B ""; value := B ""; noValue := true |};
              {| key := B "k"; value := B ""; noValue := true |} ] /\
  args_parse (encode [ {| key := B "a b"; value := B "1&2=%"; noValue := false |};
              {| key := B ""; value := B ""; noValue := true |};
              {| key := B "k"; value := B ""; noValue := true |} ])
  = Some [ {| key := B "a b"; value := B "1&2=%"; noValue := false |};
           {| key := B "k"; value := B ""; noValue := true |} ].
Proof. split; [repeat constructor; unfold wf; simpl; auto; discriminate | vm_compute; reflexivity]. Qed.

(* Response cookies (Model/Cookie.v: Cookie.AppendBytes, cookieScanner.next, decodeCookieArg, Cookie.ParseBytes;
   compared with the real Cookie on arbitrary Set-Cookie texts by unit c17.cookiemodel).
   For EVERY cookie whose key is non-empty, has no ';' or '=' and no space at either end, whose value, domain,
   path and Expires text have no ';', no space at either end and are not wrapped in double quotes, whose Max-Age
   is below 2^63 (and, when positive, comes without Expires, which AppendBytes would not write), and whose
   SameSite mode is one of the five: parsing the string form returns exactly that cookie - key, value, Max-Age,
   Expires, Domain, Path, HttpOnly, Secure, SameSite and Partitioned. *)
Theorem C17_cookie_roundtrip : forall c : cookie, wf_cookie c -> cookie_parse (cookie_bytes c) = Some c.
Proof. exact cookie_roundtrip. Qed.
Print Assumptions C17_cookie_roundtrip.

(* ... and formatting the parsed cookie again is a fixed point *)
Theorem C17_cookie_format_fixed_point : forall c : cookie, wf_cookie c ->
  option_map cookie_bytes (cookie_parse (cookie_bytes c)) = Some (cookie_bytes c).
Proof. intros c W. rewrite (cookie_roundtrip c W). reflexivity. Qed.

(* Each hypothesis of wf_cookie on the value is needed: AppendBytes writes the value as it is, and the reader takes a
   pair of double quotes around it for quoting, a ';' for the end of the value and a space at either end for
   padding.  Witnesses of the known finding `unescaped-cookie-text` of C17, replayed on the code by unit c17.cookie
   (values "\"q\"", "a;b", " x"). *)
Definition ck_with_value (v : bs) : cookie :=
  {| ck_key := B "k"; ck_value := v; ck_maxage := Z0; ck_expire := []; ck_domain := []; ck_path := [];
     ck_httponly := false; ck_secure := false; ck_samesite := 0; ck_partitioned := false |}.
Theorem C17_cookie_roundtrip_unescaped_value_refuted :
  Forall (fun v => cookie_parse (cookie_bytes (ck_with_value v)) <> Some (ck_with_value v))
         [[x22; x71; x22]; B "a;b"; B " x"].
Proof. repeat constructor; vm_compute; discriminate. Qed.
Print Assumptions C17_cookie_roundtrip_unescaped_value_refuted.

Example C17_cookie_nonvacuous :
  cookie_parse_script [B "sid=a b; Max-Age=60; path=/x; HTTPONLY; SameSite=lax; junk"] =
  B "OK k=736964 v=612062 ma=60 ex= d= p=2f78 h=1 s=0 ss=2 pt=0 | " ++
  hex_of (B "sid=a b; max-age=60; path=/x; HttpOnly; SameSite=Lax").
Proof. vm_compute. reflexivity. Qed.

(* URIs (Model/Uri.v: URI.Parse(nil, s) = getScheme / splitHostURI / user info / '?' and '#' split / normalizePath,
   and URI.FullURI with the query as a raw string; compared with the real URI on arbitrary texts by unit
   c17.urimodel).  For EVERY URI whose scheme is a valid lower-case scheme, whose host is lower-case and has no
   '/', '@' or control byte, whose path is one that normalizePath produces (`contained`: C07_contained shows
   every path set through SetPath is), whose query string has no '#' and no control byte and whose fragment
   has no control byte: parsing the full string form returns exactly that URI - scheme, host, path, query string,
   fragment, no user info.  (A control byte in the fragment or raw query string breaks the round trip: the
   known finding of C17.) *)
Theorem C17_uri_roundtrip : forall u : uri, wf_uri u -> uri_parse (uri_full u) = Ok u.
Proof. exact uri_roundtrip. Qed.
Print Assumptions C17_uri_roundtrip.

(* ... and formatting the parsed URI again is a fixed point *)
Theorem C17_uri_format_fixed_point : forall u : uri, wf_uri u ->
  match uri_parse (uri_full u) with Ok u' => uri_full u' = uri_full u | _ => False end.
Proof. exact uri_format_fixed_point. Qed.

(* the path of a URI set through SetPath is always of that form, whatever was passed *)
Theorem C17_set_path_gives_a_contained_path : forall src : bs, exists p, normalize_path src = Some p /\ contained p.
Proof. exact normalize_path_contained. Qed.

Example C17_uri_nonvacuous :
  uri_parse_script [B "HTTPS://User:pw@Example.COM/a/./b/../c%20d?x=1#f?g"] =
  B "OK s=" ++ hex_of (B "https") ++ B " h=" ++ hex_of (B "example.com") ++ B " u=" ++ hex_of (B "User") ++ B " pw=" ++ hex_of (B "pw") ++
  B " p=" ++ hex_of (B "/a/c d") ++ B " q=" ++ hex_of (B "x=1") ++ B " f=" ++ hex_of (B "f?g") ++ B " | " ++
  hex_of (B "https://example.com/a/c%20d?x=1#f?g").
Proof. vm_compute. reflexivity. Qed.
