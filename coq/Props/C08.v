(* C08 — static file responses return exactly the requested bytes (range arithmetic). *)
From Coq Require Import String.
From Coq Require Import List Strings.Byte NArith ZArith Bool.
Require Import Bytes Show Res Tables Range RangeProofs DecProofs UintWrap FsSliceProofs.
Import ListNotations.
Open Scope Z_scope.

(* Whatever the Range header, an accepted range lies inside the representation:
   0 <= start <= end < len; so the slice is non-empty, Content-Length = end-start+1 > 0 and the
   Content-Range rendering (AppendUint) cannot panic.  All header values, all lengths >= 0. *)
Theorem C08_range_in_bounds : forall (r : bs) (len a b : Z), 0 <= len ->
  parse_byte_range r len = Some (a, b) -> 0 <= a /\ a <= b /\ b < len.
Proof. exact range_in_bounds. Qed.
Print Assumptions C08_range_in_bounds.

(* Agreement with the single-range reading of RFC 7233 on exact numbers, for every first/last
   position and suffix length below 2^63 (the decimal numerals are rendered by show_Z, whose
   inverse is ParseUint: parse_uint_show) and every representation length:
     bytes=a-b : unsatisfiable iff a >= len or b < a, else a .. min(b, len-1)
     bytes=a-  : unsatisfiable iff a >= len, else a .. len-1
     bytes=-n  : unsatisfiable iff n = 0 or len = 0, else max(0, len-n) .. len-1            *)
Theorem C08_range_rfc_ab : forall a b len, 0 <= a < two63 -> 0 <= b < two63 -> 0 <= len ->
  parse_byte_range (R_ab a b) len = spec_opt (rfc_range (Some a) (Some b) len).
Proof. exact range_rfc_ab. Qed.
Theorem C08_range_rfc_a : forall a len, 0 <= a < two63 -> 0 <= len ->
  parse_byte_range (R_a a) len = spec_opt (rfc_range (Some a) None len).
Proof. exact range_rfc_a. Qed.
Theorem C08_range_rfc_suffix : forall n len, 0 <= n < two63 -> 0 <= len ->
  parse_byte_range (R_suffix n) len = spec_opt (rfc_range None (Some n) len).
Proof. exact range_rfc_suffix. Qed.
Print Assumptions C08_range_rfc_suffix.

(* Content-Length / Content-Range numerals read back exactly *)
Theorem C08_uint_roundtrip : forall n : Z, 0 <= n < two63 -> parse_uint (show_Z n) = Some n.
Proof. exact parse_uint_show. Qed.
Print Assumptions C08_uint_roundtrip.

(* Numerals of ANY size, including those whose 64-bit wrap ParseUintBuf's overflow test misses (D20):
   whatever ParseUint returns is a non-negative int64 that either is the true value of the numeral or
   else is at least 2^63/10 while the true value is at least 2^63. *)
Theorem C08_uint_any_numeral : forall s w, parse_uint s = Some w ->
  Forall is_digit s /\ 0 <= w < two63 /\ (w = val_from 0 s \/ (wrap_floor <= w /\ two63 <= val_from 0 s)).
Proof. exact parse_uint_any. Qed.
Print Assumptions C08_uint_any_numeral.

(* Hence for every representation shorter than 2^63/10 bytes and numerals with ANY number of digits:
   a range the parser accepts is the RFC 7233 range of the true numbers (an undetected wrap can never
   select wrong bytes; detected overflow only rejects). *)
Theorem C08_range_any_numeral_ab : forall da db len r,
  Forall is_digit da -> da <> [] -> Forall is_digit db -> db <> [] -> 0 <= len < wrap_floor ->
  parse_byte_range (R_raw da db) len = Some r ->
  Some r = spec_opt (rfc_range (Some (val_from 0 da)) (Some (val_from 0 db)) len).
Proof. exact range_any_numeral_ab. Qed.
Theorem C08_range_any_numeral_a : forall da len r, Forall is_digit da -> da <> [] -> 0 <= len < wrap_floor ->
  parse_byte_range (str_bytes ++ cEqual :: da ++ [cDash]) len = Some r ->
  Some r = spec_opt (rfc_range (Some (val_from 0 da)) None len).
Proof. exact range_any_numeral_a. Qed.
Theorem C08_range_any_numeral_suffix : forall dn len r, 0 <= len < wrap_floor ->
  parse_byte_range (str_bytes ++ cEqual :: cDash :: dn) len = Some r ->
  Some r = spec_opt (rfc_range None (Some (val_from 0 dn)) len).
Proof. exact range_any_numeral_suffix. Qed.
Print Assumptions C08_range_any_numeral_suffix.

Example C08_any_numeral_nonvacuous :
  parse_uint (B "21000000000000000000") = Some 2553255926290448384 /\
  parse_byte_range (R_raw (B "1") (B "21000000000000000000")) 5 = Some (1, 4) /\
  parse_byte_range (str_bytes ++ cEqual :: cDash :: B "21000000000000000000") 5 = Some (0, 4).
Proof. repeat split; vm_compute; reflexivity. Qed.

(* For EVERY file content and EVERY Range header the handler accepts: the bytes streamed (UpdateByteRange, then
   end-start+1 bytes) are exactly bytes start..end of the file, their number is the Content-Length the handler
   sets, and the Content-Range "bytes start-end/len" renders without a panic. *)
Theorem C08_partial_content_is_the_slice : forall (f r : bs) (a b : Z),
  parse_byte_range r (Z.of_nat (length f)) = Some (a, b) ->
  let body := file_slice f a b in
  Z.of_nat (length body) = (b - a + 1)%Z /\
  (forall i, (i < length body)%nat -> nth_error body i = nth_error f (Z.to_nat a + i)) /\
  exists cr, set_content_range a b (Z.of_nat (length f)) = Ok cr.
Proof. exact range_slice_consistent. Qed.
Print Assumptions C08_partial_content_is_the_slice.

Example C08_nonvacuous :
  parse_byte_range (B "bytes=2-99") 5 = Some (2, 4) /\ parse_byte_range (B "bytes=-0") 5 = None /\
  parse_byte_range (B "bytes=-2") 5 = Some (3, 4) /\ parse_byte_range (B "bytes=5-") 5 = None /\
  parse_byte_range (B "bytes=0-21000000000000000000") 5 = Some (0, 4) /\ R_ab 2 99 = B "bytes=2-99".
Proof. repeat split; vm_compute; reflexivity. Qed.
