(* C11 — client requests reach the server intact and responses come back intact (codec core). *)
From Coq Require Import String.
From Coq Require Import List Strings.Byte NArith ZArith Bool Arith.
Require Import Bytes Show Tables Codec CodecProofs Chunk ChunkProofs Range RangeProofs DecProofs
               Ser SerSkel SerProofs BodyStream BodyStreamProofs TrailerKeys HeaderScan ReqHead RespFrame RespHead RespHeadProofs.
Import ListNotations.

(* the request header block the client writes (regenerated skeleton of RequestHeader.AppendBytes):
   whatever the application put into names, values, cookies, content type: a start part plus
   sanitised header lines that a strict reader decodes exactly *)
Theorem C11_request_header_block : forall evs r, exec_b skel_RequestHeader_AppendBytes evs r ->
  exists start ls,
    evs_bytes evs = start ++ flat_map line (sanitised ls) ++ CRLF /\
    strict_lines (S (length (sanitised ls))) (flat_map line (sanitised ls) ++ CRLF) = Some (sanitised ls, []).
Proof.
  intros evs r X.
  assert (S : safe_skeleton skel_RequestHeader_AppendBytes = true) by (vm_compute; reflexivity).
  destruct (safe_block _ evs r S X) as (start & ls & E & R & _). eauto.
Qed.
Print Assumptions C11_request_header_block.

(* a body stream of unknown length is sent chunked (ext.WriteBodyChunked: one chunk per non-empty
   read, then the last chunk): any chunked reader - hertz's own, modelled by dechunk - recovers
   exactly the stream, for every way the stream was cut into reads *)
Theorem C11_chunked_upload : forall (reads : list bs) (rest : bs), Forall chunk_ok reads ->
  dechunk (S (length reads)) 0 (enchunk reads ++ rest) [] = DOk (concat reads) rest.
Proof. intros reads rest F. exact (dechunk_enchunk reads rest [] F). Qed.
Print Assumptions C11_chunked_upload.

(* query strings: what the client encodes, the server's argument parser decodes to the same list *)
Theorem C11_query_roundtrip : forall l : list kv, Forall wf l ->
  parse (S (length l)) (encode l) = Some (filter nonempty l).
Proof. exact args_roundtrip. Qed.

(* Content-Length numerals *)
Theorem C11_content_length_roundtrip : forall n : Z, (0 <= n < two63)%Z -> parse_uint (show_Z n) = Some n.
Proof. exact parse_uint_show. Qed.

(* streamed fixed-length response bodies use the same bodyStream as requests: exactly the body,
   EOF only at its end, nothing beyond it taken from the connection (C14's theorem) *)
Theorem C11_streamed_response_body : forall (n : nat) (p w : bs) prog b eof s',
  (length p <= n)%nat -> (n <= length (p ++ w))%nat ->
  run_reads prog (fresh n p w) = (b, eof, s') ->
  b = firstn (offset s') (firstn n (p ++ w)) /\ (offset s' <= n)%nat /\ (eof = true -> offset s' = n).
Proof.
  intros n p w prog b eof s' H1 H2 R. destruct (stream_correct n p w prog b eof s' H1 H2 R) as (A & B & C & _). auto.
Qed.
Print Assumptions C11_streamed_response_body.

(* The response head (resp.ReadHeader, compared with `resp_head` on every generated head by unit c11.resphead).
   The status line a server writes is read back: protocol version, status code - for EVERY code below 2^63 and
   EVERY reason phrase without LF - and parsing stops behind the line. *)
Theorem C11_status_line_reads_back : forall (code : Z) (text rest : bs),
  (0 <= code < two63)%Z -> ~ In LF text ->
  parse_status_line (bytestr_StrHTTP11 ++ [SPC] ++ show_Z code ++ [SPC] ++ text ++ CRLF ++ rest) = SLOk true code rest.
Proof. exact status_line_reads_back. Qed.
Print Assumptions C11_status_line_reads_back.

(* Framing of a response: whenever some field is a Transfer-Encoding other than identity the body is chunked,
   whatever Content-Length fields come before or after it, in whatever letter case. *)
Theorem C11_response_transfer_encoding_wins : forall fs st,
  existsb is_te_chunked fs = true -> fst (fold_left rframe_step fs st) = (-1)%Z.
Proof. exact resp_transfer_encoding_wins. Qed.
Print Assumptions C11_response_transfer_encoding_wins.

Theorem C11_response_content_length_reads : forall n : Z, (0 <= n < two63)%Z ->
  rframe_of [(bytestr_StrContentLength, show_Z n)] = (n, false).
Proof. exact resp_content_length_reads. Qed.

(* Connection persistence as the client takes it from a response head (ResponseHeader.ConnectionClose, compared
   with the code by c11.resphead): a body that is delimited by the end of the connection never leaves the
   connection reusable; a version other than HTTP/1.1 without a keep-alive token closes; a final
   "Connection: close" closes whatever came before - for EVERY field list, status and framing. *)
Theorem C11_until_close_body_closes : forall h11 status fs, must_skip_content_length status = false ->
  no_keep_alive fs -> resp_close h11 status (-2)%Z fs = true.
Proof. exact resp_close_until_close. Qed.
Theorem C11_http10_without_keep_alive_closes : forall status clen fs, no_keep_alive fs -> resp_close false status clen fs = true.
Proof. exact resp_close_http10. Qed.
Theorem C11_final_connection_close_closes : forall h11 status clen fs name,
  name <> [] -> ci_compare name bytestr_StrConnection = true ->
  resp_close h11 status clen (fs ++ [(name, bytestr_StrClose)]) = true.
Proof. exact resp_close_last_field. Qed.
Print Assumptions C11_final_connection_close_closes.

Example C11_persistence_nonvacuous :
  resp_close true 200 5 [(B "Connection", B "keep-alive")] = false /\
  resp_close false 200 5 [(B "Connection", B "x, Keep-Alive")] = false /\
  resp_close false 200 5 [] = true /\ resp_close true 200 (-2) [] = true /\ resp_close true 204 (-2) [] = false /\
  no_keep_alive [(B "Connection", B "upgrade")].
Proof. repeat split; try (vm_compute; reflexivity). intros st H. vm_compute in H. inversion H; subst. vm_compute. reflexivity. Qed.

Example C11_resphead_nonvacuous :
  resp_head [B "HTTP/1.1 404 Not Found" ++ CRLF ++ B "content-length: 5" ++ CRLF ++ B "Transfer-Encoding: chunked" ++ CRLF ++ CRLF ++ B "x"] =
  B "OK 1 404 -1 73 0" /\
  resp_head [B "HTTP/1.1 200 OK" ++ CRLF ++ B "Content-Length: 12x" ++ CRLF ++ CRLF] = B "BAD length".
Proof. vm_compute. split; reflexivity. Qed.
