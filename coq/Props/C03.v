(* C03 — no peer-controlled input can crash the process. Property theorems only:
   the checked-access models (every Go index/slice expression without a dominating bounds test
   is a checked access) of the parsers of untrusted data never reach Panic. *)
From Coq Require Import String.
From Coq Require Import List Strings.Byte NArith ZArith Bool.
Require Import Bytes Show Res Tables Range UriSplit TrailerKeys RangeProofs ParserProofs.
Import ListNotations.

(* URI splitting (request targets, client URLs): any host, any target *)
Theorem C03_no_panic_split_host_uri : forall host uri : bs, exists r, split_host_uri host uri = Ok r.
Proof. exact split_host_uri_no_panic. Qed.
Print Assumptions C03_no_panic_split_host_uri.

(* Trailer names: any Trailer header value / SetTrailers argument *)
Theorem C03_no_panic_set_trailers : forall s : bs, set_trailers s <> Panic.
Proof. exact set_trailers_no_panic. Qed.
Print Assumptions C03_no_panic_set_trailers.

(* Range header: any header value, any non-negative representation length; the accepted range
   lies inside the representation, so rendering Content-Range (AppendUint panics on negatives)
   cannot panic *)
Theorem C03_no_panic_range : forall (r : bs) (len : Z), (0 <= len)%Z -> range_response r len <> Panic.
Proof. exact range_response_no_panic. Qed.
Print Assumptions C03_no_panic_range.

Example C03_nonvacuous :
  split_host_uri [] (B "a:") = Ok (B "http", [], B "a:") /\
  split_host_uri [] (B "https://h.c?x") = Ok (B "https", B "h.c", B "?x") /\
  set_trailers (B "a,,Content-Length, X-b ") = Ok ([B "A"; B "X-B"], false) /\
  range_response (B "bytes=-1") 0 = Ok None /\
  range_response (B "bytes=1-") 3 = Ok (Some (B "bytes 1-2/3")).
Proof. repeat split; vm_compute; reflexivity. Qed.
