(* C12 — middleware chains run in onion order and Abort stops what has not started. *)
From Coq Require Import String.
From Coq Require Import List ZArith Lia Bool Arith Strings.Byte.
Require Import Bytes Show Tables Chain ChainProofs ChainNoWrap.
Import ListNotations.
Open Scope Z_scope.

Lemma abort_index_range : 0 <= abortIndex <= 127.
Proof. vm_compute. split; discriminate. Qed.

(* For every chain shorter than AbortIndex (combineHandlers refuses longer ones) and every pattern
   of Next / Abort calls in every handler, in every run in which the int8 handler index does not
   wrap around (ghost flag `wrapped`, see DESIGN D17): each handler is entered at most once, in
   registration order, and none is entered after an Abort (`good`, Proofs/ChainProofs.v). *)
Theorem C12_once_in_order_abort : forall (hs : list handler),
  Z.of_nat (length hs) < abortIndex ->
  forall fuel s', next fuel hs init = Some s' -> wrapped s' = false -> good (tr s').
Proof. intros hs Hl. exact (C12_once_in_order_abort hs Hl abort_index_range). Qed.
Print Assumptions C12_once_in_order_abort.

(* A static condition that discharges the no-wrap hypothesis: when the number of handlers plus the number of Next
   calls written in their bodies is at most 126 - AbortIndex (= 63 with AbortIndex = 63), the int8 index never
   wraps in ANY run, so every handler is entered at most once, in order, and none after an Abort - no ghost flag
   in the statement.  (`cost hs` = number of handlers + number of Next calls written in them.) *)
Theorem C12_no_wrap_static : forall (hs : list handler),
  Z.of_nat (length hs) < abortIndex -> abortIndex + cost hs + 1 <= 127 ->
  forall fuel s', next fuel hs init = Some s' -> wrapped s' = false /\ good (tr s').
Proof.
  intros hs Hl Hc fuel s' H.
  pose proof (no_wrap hs Hl abort_index_range Hc fuel s' H) as Wf.
  split; [exact Wf|]. exact (ChainProofs.C12_once_in_order_abort hs Hl abort_index_range fuel s' H Wf).
Qed.
Print Assumptions C12_no_wrap_static.

(* Onion order: the whole trace is a sequence of complete blocks  Enter i · body · Exit i  whose
   body consists of handler i's own marks, its Abort calls and complete blocks of the handlers it
   ran through Next — so code after a Next runs only after every later handler has returned. *)
Theorem C12_onion : forall fuel hs s',
  next fuel hs init = Some s' -> panicked s' = false -> blocks (rev (tr s')).
Proof. exact onion. Qed.
Print Assumptions C12_onion.

Example C12_nonvacuous :
  run_chain [B "MNM"; B "MAMNM"; B "M"] = B "E0 M0.0 E1 M1.0 A M1.2 M1.4 X1 M0.2 X0".
Proof. vm_compute. reflexivity. Qed.
